package harness

import (
	"encoding/json"
	"fmt"
	"os"
	"os/exec"
	"path/filepath"
	goruntime "runtime"
	"strconv"
	"strings"
	"testing"

	"k8s.io/apimachinery/pkg/runtime"
	"pgregory.net/rapid"

	"github.com/np-guard/netpol-analyzer/pkg/logger"
	"github.com/np-guard/netpol-analyzer/pkg/manifests/fsscanner"
	"github.com/np-guard/netpol-analyzer/pkg/manifests/parser"
	"github.com/np-guard/netpol-analyzer/pkg/netpol/eval"
)

// ---------- C03: eval agrees with list for every query ----------

type C03Query struct {
	Src, Dst int    // workload index, or -1 for the address
	Addr     uint32 // used when Src or Dst is -1
	Proto    string
	Port     int
}

type C03Case struct {
	W *World
	// CLI: queries (drawn) to run through the built binary; indices are taken modulo the number of candidates
	CLI []C03Query
	// Bootstrap: an earlier file (00-namespaces.yaml) declares the namespaces of the world once more, with OTHER labels;
	// the later declaration is the one in effect (as after `kubectl apply -f dir`) - for list and for eval alike
	Bootstrap map[string]string `json:",omitempty"`
}

func genC03(t *rapid.T) *C03Case {
	kinds := []string{"Pod", "Pod", "Pod", "Owned:ReplicaSet", "Owned2:ReplicaSet", "Deployment", "StatefulSet"}
	w := GenWorld(t, GenCfg{Admin: true, NoNamedRisk: true, Kinds: kinds, OmitNs: rapid.IntRange(0, 4).Draw(t, "omitns") == 0})
	c := &C03Case{W: w}
	if rapid.IntRange(0, 2).Draw(t, "bootstrap") == 0 {
		c.Bootstrap = genLabels(t, "bootstraplab", 2)
		if c.Bootstrap == nil {
			c.Bootstrap = map[string]string{}
		}
	}
	n := rapid.IntRange(0, 4).Draw(t, "ncli")
	if c.Bootstrap != nil {
		n += 3 // the built binary reads the directory itself: that is where a second declaration can be treated differently
	}
	for i := 0; i < n; i++ {
		l := fmt.Sprintf("q%d", i)
		q := C03Query{Src: rapid.IntRange(-1, 5).Draw(t, l+"s"), Dst: rapid.IntRange(0, 5).Draw(t, l+"d"), Addr: rapid.Uint32().Draw(t, l+"a"),
			Proto: rapid.SampledFrom(protos).Draw(t, l+"proto"), Port: rapid.IntRange(0, 40).Draw(t, l+"port")}
		if rapid.IntRange(0, 4).Draw(t, l+"toip") == 0 {
			q.Dst = -1
			if q.Src < 0 {
				q.Src = 0
			}
		}
		c.CLI = append(c.CLI, q)
	}
	return c
}

// evalPodNames returns the names under which the pods of a workload are known to the engine.
func evalPodNames(w *Workload) []string {
	switch {
	case w.Kind == "Pod":
		return []string{w.Ns + "/" + w.Name}
	case isOwned(w.Kind):
		n := w.Replicas
		if n < 1 {
			n = 1
		}
		var res []string
		for i := 0; i < n; i++ {
			res = append(res, w.Ns+"/"+ownedPodName(w, i))
		}
		return res
	}
	res := []string{w.Ns + "/" + w.Name + "-1"}
	if w.Replicas > 1 && w.Kind != "DaemonSet" && w.Kind != "CronJob" {
		res = append(res, w.Ns+"/"+w.Name+"-2")
	}
	return res
}

func rtObject(o *parser.K8sObject) runtime.Object {
	switch o.Kind {
	case parser.Namespace:
		return o.Namespace
	case parser.Pod:
		return o.Pod
	case parser.NetworkPolicy:
		return o.NetworkPolicy
	case parser.AdminNetworkPolicy:
		return o.AdminNetworkPolicy
	case parser.BaselineAdminNetworkPolicy:
		return o.BaselineAdminNetworkPolicy
	case parser.Deployment:
		return o.Deployment
	case parser.ReplicaSet:
		return o.ReplicaSet
	case parser.StatefulSet:
		return o.StatefulSet
	case parser.DaemonSet:
		return o.DaemonSet
	case parser.ReplicationController:
		return o.ReplicationController
	case parser.Job:
		return o.Job
	case parser.CronJob:
		return o.CronJob
	}
	return nil
}

func parseDir(dir string) []parser.K8sObject {
	infos, _ := fsscanner.GetResourceInfosFromDirPath([]string{dir}, true, false)
	objs, _ := parser.ResourceInfoListToK8sObjectsList(infos, logger.NewDefaultLoggerWithVerbosity(logger.LowVerbosity), true)
	return objs
}

func safeQuery(pe *eval.PolicyEngine, src, dst, proto, port string) (ok bool, err error, pan interface{}) {
	defer func() {
		if r := recover(); r != nil {
			pan = r
		}
	}()
	noteEvalCall()
	ok, err = pe.CheckIfAllowed(src, dst, proto, port)
	return
}

// noteEvalCall: the engine's verdict cache (debug mode) opens cacheHitsLog.txt at every hit and never closes it; only
// finalizers release the descriptors. A case with thousands of queries must not depend on when the collector runs.
var evalCalls int

func noteEvalCall() {
	if evalCalls++; evalCalls%2000 == 0 {
		goruntime.GC()
	}
}

func runCLI(args ...string) (stdout, stderr string, code int) {
	cmd := exec.Command(os.Getenv("VERIF_CLI"), args...)
	var so, se strings.Builder
	cmd.Stdout, cmd.Stderr = &so, &se
	cmd.Dir = os.TempDir()
	err := cmd.Run()
	code = 0
	if err != nil {
		code = -1
		if ee, ok := err.(*exec.ExitError); ok {
			code = ee.ExitCode()
		}
	}
	return so.String(), se.String(), code
}

func checkC03(c *C03Case, st *VStats) *VFailure {
	w := c.W
	dir := w.WriteDir()
	defer os.RemoveAll(dir)
	if c.Bootstrap != nil {
		var parts []string
		for _, n := range w.Namespaces {
			if n.HasObject {
				b, _ := json.Marshal(c.Bootstrap)
				parts = append(parts, fmt.Sprintf("apiVersion: v1\nkind: Namespace\nmetadata:\n  name: %s\n  labels: %s\n", n.Name, string(b)))
			}
		}
		if len(parts) > 0 {
			writeFile(filepath.Join(dir, "00-namespaces.yaml"), []byte(strings.Join(parts, "---\n")))
			st.Class("namespaces declared twice (bootstrap file first, other labels)")
		}
	}
	res := RunList(dir, ListOpts{})
	if res.Panic != nil {
		return &VFailure{Msg: fmt.Sprintf("list panicked: %v", res.Panic), Sig: "panic"}
	}
	if res.Err != nil {
		st.Class("skip: list cannot analyse the input")
		return nil
	}
	objs := parseDir(dir)
	pe1, err := eval.NewPolicyEngineWithObjects(objs)
	if err != nil {
		return vfail("NewPolicyEngineWithObjects fails where list answers: %v", err)
	}
	pe2 := eval.NewPolicyEngine()
	for i := range objs {
		if ro := rtObject(&objs[i]); ro != nil {
			if err := pe2.InsertObject(ro); err != nil {
				return vfail("InsertObject(%s) fails where list answers: %v", objs[i].Kind, err)
			}
		}
	}
	engines := []struct {
		name string
		pe   *eval.PolicyEngine
	}{{"engine built by NewPolicyEngineWithObjects", pe1}, {"engine filled by InsertObject in document order (as the CLI does)", pe2}}
	ports := portPoints(w, res)
	addrs := addrPoints(w, res)
	nAllow, nDeny := 0, 0
	var fail *VFailure
	q := func(src, dst, key string) {
		if fail != nil {
			return
		}
		cs := res.Conns[key]
		for _, proto := range protos {
			for _, port := range ports {
				want := cs.Has(proto, port)
				if want {
					nAllow++
				} else {
					nDeny++
				}
				for _, e := range engines {
					// the protocol is matched case-insensitively by the tool's CLI default ("tcp")
					p := proto
					if port%2 == 0 {
						p = strings.ToLower(proto)
					}
					got, err, pan := safeQuery(e.pe, src, dst, p, strconv.Itoa(port))
					if pan != nil {
						fail = &VFailure{Msg: fmt.Sprintf("CheckIfAllowed panicked (%s): %s -> %s %s/%d: %v", e.name, src, dst, p, port, pan), Sig: "panic"}
						return
					}
					if err != nil {
						fail = vfail("eval fails where list answers (%s): %s -> %s %s/%d: %v", e.name, src, dst, p, port, err)
						return
					}
					if got != want {
						fail = vfail("EVAL != LIST (%s): %s -> %s %s/%d: eval=%v, list entry %s = %s (reference semantics say %v)", e.name, src, dst, p, port, got, key, cs.Str(), refVerdict(w, src, dst, proto, port))
						return
					}
				}
			}
		}
	}
	for i := range w.Workloads {
		wi := &w.Workloads[i]
		for _, pi := range evalPodNames(wi) {
			for j := range w.Workloads {
				if i == j {
					continue
				}
				for _, pj := range evalPodNames(&w.Workloads[j]) {
					q(pi, pj, peerKey(wi.PeerString(), w.Workloads[j].PeerString()))
				}
			}
			for _, e := range engines {
				ok, err, pan := safeQuery(e.pe, pi, pi, "TCP", "80")
				if pan != nil || err != nil || !ok {
					return vfail("a pod to itself must be allowed (%s): %s: %v %v %v", e.name, pi, ok, err, pan)
				}
			}
			for _, a := range addrs {
				q(pi, addrStr(a), peerKey(wi.PeerString(), res.IPPeerOf(a)))
				q(addrStr(a), pi, peerKey(res.IPPeerOf(a), wi.PeerString()))
			}
		}
	}
	st.Points((nAllow + nDeny) * 2)
	if fail != nil {
		return fail
	}
	// the built binary, on the drawn queries (bare Pods and pods with an owner only: the CLI resolves Pod manifests)
	if os.Getenv("VERIF_CLI") != "" && len(c.CLI) > 0 {
		type cand struct {
			pod string
			wl  *Workload
		}
		var cands []cand
		for i := range w.Workloads {
			wl := &w.Workloads[i]
			if wl.Kind == "Pod" || isOwned(wl.Kind) {
				cands = append(cands, cand{evalPodNames(wl)[0], wl})
			}
		}
		for _, cq := range c.CLI {
			if len(cands) == 0 {
				break
			}
			port := ports[cq.Port%len(ports)]
			args := []string{"eval", "--dirpath", dir, "-p", strconv.Itoa(port), "--protocol", strings.ToLower(cq.Proto)}
			var key, desc string
			var src, dst cand
			a := uint64(cq.Addr)
			if len(addrs) > 0 && cq.Port%3 != 0 {
				a = addrs[int(cq.Addr)%len(addrs)]
			}
			if cq.Src >= 0 {
				src = cands[cq.Src%len(cands)]
				ns, n, _ := strings.Cut(src.pod, "/")
				args = append(args, "-s", n, "-n", ns)
			} else {
				args = append(args, "--source-ip", addrStr(a))
			}
			if cq.Dst >= 0 {
				dst = cands[cq.Dst%len(cands)]
				ns, n, _ := strings.Cut(dst.pod, "/")
				args = append(args, "-d", n, "--destination-namespace", ns)
			} else {
				args = append(args, "--destination-ip", addrStr(a))
			}
			var want bool
			switch {
			case cq.Src >= 0 && cq.Dst >= 0:
				if src.wl == dst.wl {
					// two pods of one workload are not a `list` entry; a pod to itself is always allowed
					if src.pod != dst.pod {
						continue
					}
					want = true
				} else {
					key = peerKey(src.wl.PeerString(), dst.wl.PeerString())
					want = res.Conns[key].Has(cq.Proto, port)
				}
			case cq.Src >= 0:
				key = peerKey(src.wl.PeerString(), res.IPPeerOf(a))
				want = res.Conns[key].Has(cq.Proto, port)
			default:
				key = peerKey(res.IPPeerOf(a), dst.wl.PeerString())
				want = res.Conns[key].Has(cq.Proto, port)
			}
			desc = strings.Join(args, " ")
			so, se, code := runCLI(args...)
			st.Class("CLI eval invocation")
			st.Points(1)
			if code != 0 {
				return vfail("`k8snetpolicy %s` exits %d where list answers; stderr: %s", desc, code, lastLines(se, 3))
			}
			line := strings.TrimSpace(so)
			if !strings.HasSuffix(line, ": "+strconv.FormatBool(want)) {
				return vfail("`k8snetpolicy %s` prints %q; list entry %s = %s so the answer should be %v", desc, line, key, res.Conns[key].Str(), want)
			}
		}
	}
	if (len(w.NPs) > 0 || len(w.ANPs) > 0 || w.BANP != nil) && nAllow > 0 && nDeny > 0 {
		st.NonTrivialCase(c)
	}
	return nil
}

// lastLines summarises stderr: the lines that carry an error, else the last n lines.
func lastLines(s string, n int) string {
	ls := strings.Split(strings.TrimSpace(s), "\n")
	var errs []string
	for _, l := range ls {
		if strings.Contains(l, "rror") || strings.Contains(l, "panic") {
			errs = append(errs, strings.TrimSpace(l))
		}
	}
	if len(errs) > 0 {
		ls = errs
	}
	if len(ls) > n {
		ls = ls[len(ls)-n:]
	}
	return strings.Join(ls, " | ")
}

// refVerdict gives the reference model's opinion for the replay log (tells which side is wrong).
func refVerdict(w *World, src, dst, proto string, port int) string {
	end := func(s string) (End, bool) {
		if a, ok := ip4(s); ok {
			return End{Addr: a}, true
		}
		for i := range w.Workloads {
			for _, n := range evalPodNames(&w.Workloads[i]) {
				if n == s {
					return End{W: &w.Workloads[i]}, true
				}
			}
		}
		return End{}, false
	}
	s, ok1 := end(src)
	d, ok2 := end(dst)
	if !ok1 || !ok2 {
		return "?"
	}
	return strconv.FormatBool(w.Allowed(s, d, proto, port))
}

func init() { vRegister("C03", checkC03) }

func TestC03(t *testing.T) { vRunProp(t, "C03", genC03, checkC03) }
