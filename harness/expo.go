package harness

import (
	"fmt"
	"sort"

	"pgregory.net/rapid"
)

// ---------- exposure analysis: reference helpers (DESIGN C06, C07) ----------

// Tape is a sequence of choices drawn inside the library and consumed deterministically by the oracle for
// decisions that depend on the tool's output (hypothetical pods built from reported entries). An empty tape yields 0
// (the simplest choice) throughout; a tape of zeros yields the simplest choices for its own length.
type Tape struct {
	V []uint32
	i int
}

func (t *Tape) Pick(n int) int {
	if n <= 1 {
		return 0
	}
	if len(t.V) == 0 {
		return 0
	}
	v := t.V[t.i%len(t.V)]
	if t.i >= len(t.V) {
		// past the end the tape is read again, each value mixed with its position (a pure function of the case): the
		// oracle of a world with many workloads asks for far more choices than a drawn slice holds on average
		v = (v+uint32(t.i))*2654435761 ^ uint32(t.i)*40503
		v >>= 7
	}
	t.i++
	return int(v % uint32(n))
}
func (t *Tape) Bool() bool { return t.Pick(2) == 1 }

var extraVals = []string{"new1", "new2"}

// labelsFor constructs labels satisfying sel (ok=false if this simple construction does not satisfy it, e.g.
// k=v together with k NotIn [v]).
func labelsFor(tp *Tape, sel *Selector, keys []string) (map[string]string, bool) {
	m := map[string]string{}
	mentioned := map[string]bool{}
	for _, k := range sortedKeysS(sel.MatchLabels) {
		m[k] = sel.MatchLabels[k]
		mentioned[k] = true
	}
	vals := append(append([]string{}, labelVals...), extraVals...)
	for _, e := range sel.Exprs {
		mentioned[e.Key] = true
		switch e.Op {
		case "In":
			if _, ok := m[e.Key]; !ok && len(e.Values) > 0 {
				m[e.Key] = e.Values[tp.Pick(len(e.Values))]
			}
		case "Exists":
			if _, ok := m[e.Key]; !ok {
				m[e.Key] = vals[tp.Pick(len(vals))]
			}
		case "NotIn":
			if _, ok := m[e.Key]; !ok && tp.Bool() {
				m[e.Key] = "other9"
			}
		}
	}
	for _, k := range keys {
		if !mentioned[k] && tp.Pick(3) == 0 {
			m[k] = vals[tp.Pick(len(vals))]
		}
	}
	return m, selMatch(sel, m)
}

// hypoFor builds a hypothetical new pod. any=true: arbitrary labels and namespace; else one satisfying
// (nsSel, podSel) by construction. It returns a copy of the world extended with the pod's namespace when that is new.
func hypoFor(tp *Tape, w *World, nsSel, podSel *Selector, any bool) (*World, *Workload, bool) {
	var pl map[string]string
	ok := true
	vals := append(append([]string{}, labelVals...), extraVals...)
	if any {
		pl = map[string]string{}
		n := tp.Pick(4)
		for i := 0; i < n; i++ {
			pl[labelKeys[tp.Pick(len(labelKeys))]] = vals[tp.Pick(len(vals))]
		}
	} else {
		pl, ok = labelsFor(tp, podSel, labelKeys)
		if !ok {
			return nil, nil, false
		}
	}
	h := &Workload{Name: "hypo", Kind: "Pod", Labels: pl}
	np := tp.Pick(4)
	used := map[string]bool{}
	for j := 0; j < np; j++ {
		n := portNames[tp.Pick(len(portNames))]
		if used[n] {
			continue
		}
		used[n] = true
		num := portPool[tp.Pick(len(portPool))]
		if tp.Pick(4) == 0 {
			num = 1 + tp.Pick(65535)
		}
		h.Ports = append(h.Ports, CPort{Name: n, Number: num, Proto: []string{"", "TCP", "UDP", "SCTP"}[tp.Pick(4)]})
	}
	w2 := *w
	existing := map[string]bool{}
	for _, n := range w.Namespaces {
		existing[n.Name] = true
	}
	for _, p := range w.NPs {
		existing[p.Ns] = true
	}
	for _, x := range w.Workloads {
		existing[x.Ns] = true
	}
	var cands []string
	for n := range existing {
		if any || selMatch(nsSel, w.nsLabels(n)) {
			cands = append(cands, n)
		}
	}
	sort.Strings(cands)
	if len(cands) > 0 && tp.Bool() {
		h.Ns = cands[tp.Pick(len(cands))]
		return &w2, h, true
	}
	// a new namespace
	name := "hns"
	var nl map[string]string
	if any {
		nl = map[string]string{}
		n := tp.Pick(3)
		for i := 0; i < n; i++ {
			nl[labelKeys[tp.Pick(len(labelKeys))]] = vals[tp.Pick(len(vals))]
		}
	} else {
		nl, _ = labelsFor(tp, nsSel, labelKeys)
		if v, ok := nl[nsNameKey]; ok {
			name = v
		}
	}
	if existing[name] {
		// the selector names an existing namespace: its real labels apply
		h.Ns = name
		if !any && !selMatch(nsSel, w.nsLabels(name)) {
			return nil, nil, false
		}
		return &w2, h, true
	}
	delete(nl, nsNameKey)
	w2.Namespaces = append(append([]Ns{}, w.Namespaces...), Ns{Name: name, Labels: nl, HasObject: true})
	h.Ns = name
	if !any && !selMatch(nsSel, w2.nsLabels(name)) {
		return nil, nil, false
	}
	return &w2, h, true
}

// equalities of a selector (matchLabels plus single-value In); ok=false if it has any other requirement.
func equalities(s *Selector) (map[string]string, bool) {
	m := map[string]string{}
	for k, v := range s.MatchLabels {
		m[k] = v
	}
	for _, e := range s.Exprs {
		// In with one value - also when that value is listed more than once - is a label equality
		if e.Op != "In" || len(e.Values) < 1 {
			return nil, false
		}
		for _, v := range e.Values[1:] {
			if v != e.Values[0] {
				return nil, false
			}
		}
		if old, ok := m[e.Key]; ok && old != e.Values[0] {
			return nil, false
		}
		m[e.Key] = e.Values[0]
	}
	return m, true
}

// exempt implements the single documented omission of C07, read semantically so that it never demands more than
// the statement: a rule peer whose selectors consist solely of label equalities that an existing workload (in a
// matching namespace) already satisfies.
func (w *World) exempt(p *NetPol, pe *Peer) bool {
	if pe.IPBlock != nil || pe.PodSel == nil {
		return false
	}
	pl, ok := equalities(pe.PodSel)
	if !ok || len(pl) == 0 {
		return false
	}
	nsl := map[string]string{nsNameKey: p.Ns}
	if pe.NsSel != nil {
		nsl, ok = equalities(pe.NsSel)
		if !ok || len(nsl) == 0 {
			return false
		}
	}
	for i := range w.Workloads {
		r := &w.Workloads[i]
		if superset(r.Labels, pl) && superset(w.nsLabels(r.Ns), nsl) {
			return true
		}
	}
	return false
}

// npAllowsNonExempt: allowed by W's policies in dir w.r.t. pod H through a non-exempt rule peer
// (orig = the world without the hypothetical namespace, used for the exemption).
func (w *World) npAllowsNonExempt(orig *World, W, H *Workload, dir, proto string, port int) bool {
	dst := H
	if dir == "Ingress" {
		dst = W
	}
	for i := range w.NPs {
		p := &w.NPs[i]
		if !w.npGoverns(p, W, dir) {
			continue
		}
		rules := p.Ingress
		if dir == "Egress" {
			rules = p.Egress
		}
		for ri := range rules {
			r := &rules[ri]
			pm := len(r.Peers) == 0
			for pi := range r.Peers {
				if w.npPeerMatch(p, &r.Peers[pi], End{W: H}) && !orig.exempt(p, &r.Peers[pi]) {
					pm = true
				}
			}
			if !pm {
				continue
			}
			if len(r.Ports) == 0 {
				return true
			}
			for qi := range r.Ports {
				if npPortMatch(&r.Ports[qi], proto, port, End{W: dst}) {
					return true
				}
			}
		}
	}
	return false
}

// ---------- generator: exposure worlds with derived near-duplicate selectors ----------

type peerRef struct {
	pol, rule, peer int
	egress          bool
}

func (w *World) selectorPeers() []peerRef {
	var res []peerRef
	for pi := range w.NPs {
		for eg, rs := range [][]Rule{w.NPs[pi].Ingress, w.NPs[pi].Egress} {
			for ri := range rs {
				for qi := range rs[ri].Peers {
					if rs[ri].Peers[qi].IPBlock == nil {
						res = append(res, peerRef{pi, ri, qi, eg == 1})
					}
				}
			}
		}
	}
	return res
}

func cloneSel(s *Selector) *Selector {
	if s == nil {
		return nil
	}
	c := &Selector{}
	if s.MatchLabels != nil {
		c.MatchLabels = copyMap(s.MatchLabels)
	}
	for _, e := range s.Exprs {
		c.Exprs = append(c.Exprs, Expr{Key: e.Key, Op: e.Op, Values: append([]string{}, e.Values...)})
	}
	return c
}

// respell returns an equivalent spelling of the selector.
func respell(t *rapid.T, l string, s *Selector) *Selector {
	c := cloneSel(s)
	if c == nil {
		return nil
	}
	switch rapid.IntRange(0, 2).Draw(t, l+"how") {
	case 0: // k: v -> k In [v]
		keys := sortedKeysS(c.MatchLabels)
		if len(keys) > 0 {
			k := keys[rapid.IntRange(0, len(keys)-1).Draw(t, l+"k")]
			c.Exprs = append(c.Exprs, Expr{Key: k, Op: "In", Values: []string{c.MatchLabels[k]}})
			delete(c.MatchLabels, k)
		}
	case 1: // k In [v] -> k: v
		for i, e := range c.Exprs {
			if e.Op == "In" && len(e.Values) == 1 {
				if _, clash := c.MatchLabels[e.Key]; !clash {
					if c.MatchLabels == nil {
						c.MatchLabels = map[string]string{}
					}
					c.MatchLabels[e.Key] = e.Values[0]
					c.Exprs = append(append([]Expr{}, c.Exprs[:i]...), c.Exprs[i+1:]...)
					break
				}
			}
		}
	default: // permute expressions and values
		c.Exprs = shuffle(t, l+"pe", c.Exprs)
		for i := range c.Exprs {
			c.Exprs[i].Values = shuffle(t, fmt.Sprintf("%spv%d", l, i), c.Exprs[i].Values)
		}
	}
	return c
}

// addNearDuplicates appends rules whose selector pairs are derived from existing ones (DESIGN C07 generator).
func addNearDuplicates(t *rapid.T, w *World) {
	n := rapid.IntRange(0, 3).Draw(t, "ndup")
	for d := 0; d < n; d++ {
		l := fmt.Sprintf("dup%d", d)
		refs := w.selectorPeers()
		var src Peer
		var srcNs string
		kind := rapid.IntRange(0, 8).Draw(t, l+"kind")
		if kind == 8 && len(w.NPs) > 0 {
			// an entire-cluster rule whose ports touch both ends of the port space but leave a gap, next to a rule to
			// specific (absent) peers on a named port of the same protocol: the named port may resolve into the gap
			pi := rapid.IntRange(0, len(w.NPs)-1).Draw(t, l+"gpol")
			proto := rapid.SampledFrom([]string{"", "TCP", "UDP", "SCTP"}).Draw(t, l+"gproto")
			lo := rapid.SampledFrom([]int{1, 1, 2}).Draw(t, l+"glo")
			hi := rapid.SampledFrom([]int{65535, 65535, 65534}).Draw(t, l+"ghi")
			a := rapid.SampledFrom([]int{2, 52, 79}).Draw(t, l+"ga")
			b := rapid.SampledFrom([]int{8000, 8082, 65534}).Draw(t, l+"gb")
			wide := Rule{Ports: []PPort{{Proto: proto, PortNum: lo, EndPort: a}, {Proto: proto, PortNum: b, EndPort: hi}}}
			if rapid.Bool().Draw(t, l+"gviaNs") {
				wide.Peers = []Peer{{NsSel: &Selector{}}}
			}
			named := Rule{Peers: []Peer{{NsSel: &Selector{MatchLabels: map[string]string{"env": "fresh1"}}, PodSel: &Selector{MatchLabels: map[string]string{"app": "fresh2"}}}},
				Ports: []PPort{{Proto: proto, PortNam: rapid.SampledFrom(portNames).Draw(t, l+"gname")}}}
			ing := rapid.IntRange(0, 3).Draw(t, l+"gdir") == 0
			if rapid.Bool().Draw(t, l+"gown") {
				// a policy of its own, selecting every pod of the namespace
				q := NetPol{Ns: w.NPs[pi].Ns, Name: "np-gap" + fmt.Sprint(d), PolicyTypes: []string{"Egress"}, Egress: []Rule{wide, named}}
				if ing {
					q.PolicyTypes, q.Ingress, q.Egress = []string{"Ingress"}, q.Egress, nil
				}
				w.NPs = append(w.NPs, q)
			} else if ing {
				w.NPs[pi].Ingress = append(w.NPs[pi].Ingress, wide, named)
			} else {
				w.NPs[pi].Egress = append(w.NPs[pi].Egress, wide, named)
			}
			continue
		}
		if kind == 6 && len(w.Workloads) > 0 && len(w.NPs) > 0 {
			// a rule derived from an EXISTING workload: its label equalities are satisfied by a real pod, but one of the two
			// selectors also carries a non-equality requirement - such a rule is not exempt from reporting
			x := w.Workloads[rapid.IntRange(0, len(w.Workloads)-1).Draw(t, l+"xw")]
			podSel := &Selector{MatchLabels: map[string]string{}}
			for _, k := range sortedKeysS(x.Labels) {
				if rapid.Bool().Draw(t, l+"pl"+k) {
					podSel.MatchLabels[k] = x.Labels[k]
				}
			}
			nsl := w.nsLabels(x.Ns)
			nsSel := &Selector{MatchLabels: map[string]string{}}
			for _, k := range sortedKeysS(nsl) {
				if rapid.Bool().Draw(t, l+"nl"+k) {
					nsSel.MatchLabels[k] = nsl[k]
				}
			}
			extra := Expr{Key: rapid.SampledFrom(labelKeys).Draw(t, l+"xk"), Op: rapid.SampledFrom([]string{"NotIn", "Exists", "DoesNotExist", "In"}).Draw(t, l+"xop")}
			if extra.Op == "NotIn" || extra.Op == "In" {
				extra.Values = []string{rapid.SampledFrom(labelVals).Draw(t, l+"xv"), "fresh1"}
			}
			if rapid.Bool().Draw(t, l+"xonns") {
				nsSel.Exprs = append(nsSel.Exprs, extra)
			} else {
				podSel.Exprs = append(podSel.Exprs, extra)
			}
			pe := Peer{PodSel: podSel, NsSel: nsSel}
			if len(podSel.MatchLabels) == 0 && len(podSel.Exprs) == 0 && rapid.Bool().Draw(t, l+"nilpod") {
				pe.PodSel = nil
			}
			r := Rule{Peers: []Peer{pe}, Ports: []PPort{{PortNum: rapid.SampledFrom([]int{8080, 80, 443}).Draw(t, l+"xport")}}}
			pi := rapid.IntRange(0, len(w.NPs)-1).Draw(t, l+"xpol")
			if rapid.Bool().Draw(t, l+"xdir") {
				w.NPs[pi].Ingress = append(w.NPs[pi].Ingress, r)
			} else {
				w.NPs[pi].Egress = append(w.NPs[pi].Egress, r)
			}
			continue
		}
		if kind == 7 && len(w.NPs) > 0 {
			// two policies of one namespace, both open to the entire cluster in one direction on different ports of one
			// protocol; the first selects every pod, the second a subset (shared state between policies shows up here)
			pi := rapid.IntRange(0, len(w.NPs)-1).Draw(t, l+"epol")
			ns := w.NPs[pi].Ns
			ing := rapid.Bool().Draw(t, l+"edir")
			mk := func(name string, sel Selector, port int) NetPol {
				r := Rule{Ports: []PPort{{PortNum: port}}}
				if rapid.Bool().Draw(t, l+name+"viaNs") {
					r.Peers = []Peer{{NsSel: &Selector{}}}
				}
				p := NetPol{Ns: ns, Name: name + fmt.Sprint(d)}
				p.PodSel = sel
				if ing {
					p.PolicyTypes = []string{"Ingress"}
					p.Ingress = []Rule{r}
				} else {
					p.PolicyTypes = []string{"Egress"}
					p.Egress = []Rule{r}
				}
				return p
			}
			narrow := Selector{}
			for _, x := range w.Workloads {
				if x.Ns == ns && len(x.Labels) > 0 {
					k := sortedKeysS(x.Labels)[0]
					narrow = Selector{MatchLabels: map[string]string{k: x.Labels[k]}}
					break
				}
			}
			w.NPs = append(w.NPs, mk("broad", Selector{}, 8080), mk("narrow", narrow, 9090))
			continue
		}
		if kind >= 6 {
			kind = rapid.IntRange(0, 5).Draw(t, l+"kind2")
		}
		if len(refs) == 0 || kind == 5 {
			// seed a concatenation-neighbour pair from scratch (keys a, b, ab; value c)
			if len(w.NPs) == 0 {
				return
			}
			pi := rapid.IntRange(0, len(w.NPs)-1).Draw(t, l+"seedpol")
			srcNs = w.NPs[pi].Ns
			src = Peer{PodSel: &Selector{MatchLabels: map[string]string{"b": "c"}, Exprs: []Expr{{Key: "a", Op: "Exists"}}}}
			if rapid.Bool().Draw(t, l+"seedns") {
				src.NsSel = &Selector{MatchLabels: map[string]string{"b": "c"}, Exprs: []Expr{{Key: "a", Op: "Exists"}}}
				src.PodSel = &Selector{}
			}
			r := Rule{Peers: []Peer{src}, Ports: []PPort{{PortNum: 80}}}
			if rapid.Bool().Draw(t, l+"seeddir") {
				w.NPs[pi].Ingress = append(w.NPs[pi].Ingress, r)
			} else {
				w.NPs[pi].Egress = append(w.NPs[pi].Egress, r)
			}
			kind = 2
		} else {
			ref := refs[rapid.IntRange(0, len(refs)-1).Draw(t, l+"ref")]
			rs := w.NPs[ref.pol].Ingress
			if ref.egress {
				rs = w.NPs[ref.pol].Egress
			}
			src = rs[ref.rule].Peers[ref.peer]
			srcNs = w.NPs[ref.pol].Ns
		}
		np := Peer{PodSel: cloneSel(src.PodSel), NsSel: cloneSel(src.NsSel)}
		switch kind {
		case 0: // nil namespaceSelector <-> explicit kubernetes.io/metadata.name of the policy's namespace
			if np.NsSel == nil {
				np.NsSel = &Selector{MatchLabels: map[string]string{nsNameKey: srcNs}}
				if rapid.Bool().Draw(t, l+"asin") {
					np.NsSel = &Selector{Exprs: []Expr{{Key: nsNameKey, Op: "In", Values: []string{srcNs}}}}
				}
			} else if eq, ok := equalities(np.NsSel); ok && len(eq) == 1 && eq[nsNameKey] == srcNs {
				np.NsSel = nil
			} else {
				np.NsSel = respell(t, l+"ns", np.NsSel)
			}
		case 1: // re-spelling of the pod or namespace selector
			if np.PodSel != nil && rapid.Bool().Draw(t, l+"which") {
				np.PodSel = respell(t, l+"pod", np.PodSel)
			} else if np.NsSel != nil {
				np.NsSel = respell(t, l+"ns", np.NsSel)
			} else if np.PodSel != nil {
				np.PodSel = respell(t, l+"pod", np.PodSel)
			}
		case 2: // concatenation neighbours: {k1 Exists, k2=v} <-> {k1k2=v}
			conc := func(s *Selector) *Selector {
				if s == nil {
					return nil
				}
				eq, _ := equalities(&Selector{MatchLabels: s.MatchLabels})
				var ex, other []Expr
				for _, e := range s.Exprs {
					if e.Op == "Exists" {
						ex = append(ex, e)
					} else {
						other = append(other, e)
					}
				}
				inVocab := func(k string) bool {
					for _, x := range labelKeys {
						if x == k {
							return true
						}
					}
					return false
				}
				// only within the label-key vocabulary, so that every derived key is a valid label key
				if len(ex) == 1 && len(eq) == 1 && len(other) == 0 {
					k2 := sortedKeysS(eq)[0]
					if inVocab(ex[0].Key + k2) {
						return &Selector{MatchLabels: map[string]string{ex[0].Key + k2: eq[k2]}}
					}
				}
				if len(ex) == 0 && len(eq) == 1 && len(other) == 0 {
					k := sortedKeysS(eq)[0]
					if len(k) >= 2 && inVocab(k[:1]) && inVocab(k[1:]) {
						return &Selector{MatchLabels: map[string]string{k[1:]: eq[k]}, Exprs: []Expr{{Key: k[:1], Op: "Exists"}}}
					}
				}
				return cloneSel(s)
			}
			np.PodSel = conc(np.PodSel)
			np.NsSel = conc(np.NsSel)
		case 3: // one label more
			tgt := np.PodSel
			if tgt == nil || rapid.Bool().Draw(t, l+"onns") && np.NsSel != nil {
				tgt = np.NsSel
			}
			if tgt != nil {
				if tgt.MatchLabels == nil {
					tgt.MatchLabels = map[string]string{}
				}
				tgt.MatchLabels[rapid.SampledFrom(labelKeys).Draw(t, l+"mk")] = rapid.SampledFrom(labelVals).Draw(t, l+"mv")
			}
		default: // In [v] -> In [v,w]
			for _, s := range []*Selector{np.PodSel, np.NsSel} {
				if s == nil {
					continue
				}
				for i := range s.Exprs {
					if s.Exprs[i].Op == "In" {
						s.Exprs[i].Values = append(s.Exprs[i].Values, rapid.SampledFrom(labelVals).Draw(t, l+"wv"))
					}
				}
			}
		}
		if np.PodSel == nil && np.NsSel == nil {
			continue
		}
		// place it: same or other policy, same or other direction, with different ports
		pi := rapid.IntRange(0, len(w.NPs)-1).Draw(t, l+"dstpol")
		if kind == 0 || rapid.Bool().Draw(t, l+"samens") {
			// the nil-vs-explicit re-spelling is only equivalent within the same namespace
			var same []int
			for i := range w.NPs {
				if w.NPs[i].Ns == srcNs {
					same = append(same, i)
				}
			}
			pi = same[rapid.IntRange(0, len(same)-1).Draw(t, l+"samepol")]
		}
		r := Rule{Peers: []Peer{np}}
		switch rapid.IntRange(0, 3).Draw(t, l+"ports") {
		case 0:
			r.Ports = []PPort{{PortNum: 90}}
		case 1:
			r.Ports = []PPort{{PortNum: 80}, {Proto: "UDP", PortNum: 53}}
		case 2:
			r.Ports = []PPort{{PortNam: rapid.SampledFrom(portNames).Draw(t, l+"pn")}}
		}
		if rapid.Bool().Draw(t, l+"dir") {
			w.NPs[pi].Ingress = append(w.NPs[pi].Ingress, r)
		} else {
			w.NPs[pi].Egress = append(w.NPs[pi].Egress, r)
		}
	}
}

// GenExposureWorld draws an NP-only world biased for exposure analysis (DESIGN C06/C07).
func GenExposureWorld(t *rapid.T) *World {
	cfg := GenCfg{NoNamedRisk: true, Exposureish: true, MaxWl: 4, MaxNP: 4}
	if rapid.IntRange(0, 4).Draw(t, "allpods") == 0 {
		// a dump of running pods: every workload is a bare Pod (no owner - whatever is kept per owner is shared by them)
		cfg.Kinds = []string{"Pod"}
	}
	w := GenWorld(t, cfg)
	if len(w.NPs) == 0 && rapid.Bool().Draw(t, "seednp") {
		w.NPs = append(w.NPs, NetPol{Ns: w.Namespaces[0].Name, Name: "np-seed", PolicyTypes: []string{"Ingress", "Egress"}})
	}
	addNearDuplicates(t, w)
	if rapid.IntRange(0, 4).Draw(t, "isons") == 0 {
		addIsolatedNamespace(t, w)
	}
	if rapid.IntRange(0, 11).Draw(t, "sealed") == 0 {
		SealWorld(t, w)
	}
	return w
}

// SealWorld replaces the NetworkPolicies by one policy per namespace that governs both directions of every pod and
// names only IP blocks: every workload is protected, nothing is exposed to potential peers (the exposure section of a
// report is empty) while the connectivity section still has IP-range lines.
func SealWorld(t *rapid.T, w *World) {
	seen := map[string]bool{}
	w.NPs = nil
	for _, x := range w.Workloads {
		if seen[x.Ns] {
			continue
		}
		seen[x.Ns] = true
		p := NetPol{Ns: x.Ns, Name: "np-sealed", PolicyTypes: []string{"Ingress", "Egress"}}
		p.Ingress = []Rule{{Peers: []Peer{{IPBlock: &IPBlock{CIDR: "10.0.0.0/8"}}}, Ports: []PPort{{PortNum: 80}}}}
		if rapid.Bool().Draw(t, "sealeg"+x.Ns) {
			p.Egress = []Rule{{Peers: []Peer{{IPBlock: &IPBlock{CIDR: "0.0.0.0/0", Except: []string{"10.1.2.0/24"}}}}}}
		}
		w.NPs = append(w.NPs, p)
	}
}

// addIsolatedNamespace adds a namespace whose only workload has no connection at all (its policy admits only peers of a
// namespace that does not exist), yet is exposed; and a rule elsewhere that names this namespace with a pod selector no
// pod satisfies. The namespace then enters the report only through the exposure section.
func addIsolatedNamespace(t *rapid.T, w *World) {
	const iso = "iso"
	w.Namespaces = append(w.Namespaces, Ns{Name: iso, HasObject: rapid.Bool().Draw(t, "isoobj")})
	w.Workloads = append(w.Workloads, Workload{Ns: iso, Name: "lonely", Kind: "Deployment", Replicas: 1, Labels: map[string]string{"app": "x1"}})
	ghost := Peer{NsSel: &Selector{MatchLabels: map[string]string{"env": "nowhere"}}}
	p := NetPol{Ns: iso, Name: "np-iso", PolicyTypes: []string{"Ingress", "Egress"}}
	switch rapid.IntRange(0, 2).Draw(t, "isodir") {
	case 0:
		p.Ingress = []Rule{{Peers: []Peer{ghost}}}
	case 1:
		p.Egress = []Rule{{Peers: []Peer{ghost}}}
	default:
		p.Ingress = []Rule{{Peers: []Peer{ghost}}}
		p.Egress = []Rule{{Peers: []Peer{ghost}, Ports: []PPort{{PortNum: 80}}}}
	}
	var others []int
	for i := range w.NPs {
		if w.NPs[i].Ns != iso {
			others = append(others, i)
		}
	}
	w.NPs = append(w.NPs, p)
	ref := Rule{Peers: []Peer{{NsSel: &Selector{MatchLabels: map[string]string{nsNameKey: iso}}, PodSel: &Selector{MatchLabels: map[string]string{"app": "nobody"}}}}}
	if rapid.Bool().Draw(t, "isorefports") {
		ref.Ports = []PPort{{PortNum: 8080}}
	}
	if len(others) == 0 {
		q := NetPol{Ns: w.Namespaces[0].Name, Name: "np-ref", PolicyTypes: []string{"Ingress", "Egress"}}
		w.NPs = append(w.NPs, q)
		others = []int{len(w.NPs) - 1}
	}
	q := &w.NPs[others[rapid.IntRange(0, len(others)-1).Draw(t, "isoref")]]
	if rapid.Bool().Draw(t, "isorefdir") {
		q.Ingress = append(q.Ingress, ref)
	} else {
		q.Egress = append(q.Egress, ref)
	}
}
