package harness

import (
	"fmt"

	"pgregory.net/rapid"
)

// ---------- ingress worlds (DESIGN C10) ----------

var svcPortPool = []int{80, 81, 8080, 8081, 53, 443}

// GenIngressWorld draws a world with Services, Ingresses and Routes on top of an NP (and optionally
// ingress-only admin policy) world. Domain restrictions of DESIGN C10 are kept by construction.
func GenIngressWorld(t *rapid.T, admin bool) *World {
	omitNs := rapid.IntRange(0, 2).Draw(t, "ingomit") == 0 // namespace "default" is in the world, some of its documents omit the field
	w := GenWorld(t, GenCfg{Admin: admin && rapid.Bool().Draw(t, "ingadmin"), MaxWl: 4, MaxNP: 3, MaxANP: 3, NoNamedRisk: true, OmitNs: omitNs})
	// admin egress rules may select the fake ingress-controller pod (a pod without labels in a namespace that carries its
	// name label only): C02's semantics apply to it as to any pod. Kept in half of the worlds.
	if rapid.Bool().Draw(t, "ingdropadminegress") {
		for i := range w.ANPs {
			w.ANPs[i].Egress = nil
		}
		if w.BANP != nil {
			w.BANP.Egress = nil
		}
	}
	// make container ports likely to be hit by service target ports
	for i := range w.Workloads {
		wl := &w.Workloads[i]
		n := rapid.IntRange(0, 3).Draw(t, fmt.Sprintf("ingcp%dn", i))
		used := map[string]bool{}
		for _, cp := range wl.Ports {
			used[cp.Name] = true
		}
		for j := 0; j < n && len(wl.Ports) < 4; j++ {
			l := fmt.Sprintf("ingcp%d_%d", i, j)
			cp := CPort{Number: rapid.SampledFrom(svcPortPool).Draw(t, l+"num"), Proto: rapid.SampledFrom([]string{"", "TCP", "TCP", "UDP"}).Draw(t, l+"proto")}
			if rapid.Bool().Draw(t, l+"named") {
				nm := rapid.SampledFrom(portNames).Draw(t, l+"name")
				if !used[nm] {
					used[nm] = true
					cp.Name = nm
				}
			}
			wl.Ports = append(wl.Ports, cp)
		}
	}
	// the same port NAME in two containers of one pod (names are unique per container, not per pod): a second TCP port
	// of another number under a name the first container already uses. The first one in container order is what the
	// name means (as for Kubernetes' own endpoints). Only for names no policy of the world uses.
	if len(w.Workloads) > 0 && rapid.IntRange(0, 3).Draw(t, "ingdupname") == 0 {
		wl := &w.Workloads[rapid.IntRange(0, len(w.Workloads)-1).Draw(t, "ingdupnamewl")]
		for k, cp := range wl.Ports {
			if cp.Name == "" || protoOr(cp.Proto) != "TCP" || worldUsesPortName(w, cp.Name) {
				continue
			}
			wl.SplitContainers, wl.NCont = true, 0 // two containers, ports dealt alternately
			if len(wl.Ports)%2 == k%2 {
				wl.Ports = append(wl.Ports, CPort{Number: 6060, Proto: "UDP"}) // filler: the twin lands in the other container
			}
			num := rapid.SampledFrom(svcPortPool).Draw(t, "ingdupnamenum")
			if num == cp.Number {
				num = cp.Number + 1
			}
			wl.Ports = append(wl.Ports, CPort{Name: cp.Name, Number: num, Proto: "TCP"})
			break
		}
	}
	ns := func(l string) string { return w.Namespaces[rapid.IntRange(0, len(w.Namespaces)-1).Draw(t, l)].Name }
	nsv := rapid.IntRange(0, 3).Draw(t, "nsvc")
	for i := 0; i < nsv; i++ {
		l := fmt.Sprintf("svc%d", i)
		s := Svc{Ns: ns(l + "ns"), Name: l, Selector: map[string]string{}}
		var target *Workload
		// selector copied from a workload most of the time so that it matches
		if len(w.Workloads) > 0 && rapid.IntRange(0, 4).Draw(t, l+"fromwl") > 0 {
			target = &w.Workloads[rapid.IntRange(0, len(w.Workloads)-1).Draw(t, l+"wl")]
			s.Ns = target.Ns
			keys := sortedKeysS(target.Labels)
			if len(keys) > 0 {
				k := rapid.SampledFrom(keys).Draw(t, l+"selk")
				s.Selector[k] = target.Labels[k]
				if len(keys) > 1 && rapid.Bool().Draw(t, l+"sel2") {
					k2 := rapid.SampledFrom(keys).Draw(t, l+"selk2")
					s.Selector[k2] = target.Labels[k2]
				}
			}
		}
		if len(s.Selector) == 0 {
			// service selectors are non-empty (domain restriction)
			if target != nil {
				// give the workload a label to select
				if target.Labels == nil {
					target.Labels = map[string]string{}
				}
				target.Labels["app"] = "x1"
				s.Selector["app"] = "x1"
			} else {
				s.Selector[rapid.SampledFrom(labelKeys).Draw(t, l+"k")] = rapid.SampledFrom(labelVals).Draw(t, l+"v")
			}
		}
		np := rapid.IntRange(1, 3).Draw(t, l+"np")
		usedN, usedP := map[string]bool{}, map[int]bool{}
		for j := 0; j < np; j++ {
			pl := fmt.Sprintf("%sp%d", l, j)
			sp := SvcPort{Port: rapid.SampledFrom(svcPortPool).Draw(t, pl+"port")}
			if usedP[sp.Port] {
				continue
			}
			usedP[sp.Port] = true
			if np > 1 || rapid.Bool().Draw(t, pl+"named") {
				sp.Name = rapid.SampledFrom([]string{"p-a", "p-b", "http", "dns"}).Draw(t, pl+"name")
				if usedN[sp.Name] {
					sp.Name = fmt.Sprintf("p-%d", j)
				}
				usedN[sp.Name] = true
			}
			switch rapid.IntRange(0, 6).Draw(t, pl+"tk") {
			case 1:
				sp.TargetNum = rapid.SampledFrom(svcPortPool).Draw(t, pl+"tnum")
			case 2:
				sp.TargetName = rapid.SampledFrom(portNames).Draw(t, pl+"tname")
			case 3, 4, 5, 6:
				// aim at a container port of the targeted workload
				if target != nil && len(target.Ports) > 0 {
					cp := target.Ports[rapid.IntRange(0, len(target.Ports)-1).Draw(t, pl+"tcp")]
					if cp.Name != "" && rapid.Bool().Draw(t, pl+"tbyname") {
						sp.TargetName = cp.Name
					} else {
						sp.TargetNum = cp.Number
					}
				}
			}
			s.Ports = append(s.Ports, sp)
		}
		w.Services = append(w.Services, s)
		// a second workload behind the same Service that gives the targeted port NAME another number (what a named
		// targetPort resolves to is a matter of each pod)
		if target != nil && rapid.IntRange(0, 3).Draw(t, l+"second") == 0 {
			for i := range w.Workloads {
				y := &w.Workloads[i]
				if y == target || y.Ns != target.Ns {
					continue
				}
				if y.Labels == nil {
					y.Labels = map[string]string{}
				}
				for k, v := range s.Selector {
					y.Labels[k] = v
				}
				for _, sp := range s.Ports {
					if sp.TargetName == "" {
						continue
					}
					num := 0
					for _, cp := range target.Ports {
						if cp.Name == sp.TargetName {
							num = cp.Number
						}
					}
					has := false
					for _, cp := range y.Ports {
						if cp.Name == sp.TargetName {
							has = true
						}
					}
					if !has && num != 0 && len(y.Ports) < 4 {
						y.Ports = append(y.Ports, CPort{Name: sp.TargetName, Number: num%65535 + 1})
					}
				}
				break
			}
		}
	}
	// a namesake: a Service with the NAME of an existing one in another namespace which the analysis ignores (no selector,
	// or a selector no workload satisfies). Services are identified by namespace AND name.
	if len(w.Services) > 0 && len(w.Namespaces) > 1 && rapid.IntRange(0, 2).Draw(t, "svcnamesake") == 0 {
		s := w.Services[rapid.IntRange(0, len(w.Services)-1).Draw(t, "svcnamesakeof")]
		n2 := ns("svcnamesakens")
		exists := false
		for _, o := range w.Services {
			if o.Ns == n2 && o.Name == s.Name {
				exists = true
			}
		}
		if !exists {
			twin := Svc{Ns: n2, Name: s.Name, Ports: append([]SvcPort(nil), s.Ports...)}
			if rapid.Bool().Draw(t, "svcnamesakesel") {
				twin.Selector = map[string]string{"app": "nobody"}
			}
			pos := rapid.IntRange(0, len(w.Services)).Draw(t, "svcnamesakepos")
			w.Services = append(w.Services[:pos], append([]Svc{twin}, w.Services[pos:]...)...)
		}
	}
	svcName := func(l string, nsn string) string {
		var c []string
		for _, s := range w.Services {
			if s.Ns == nsn {
				c = append(c, s.Name)
			}
		}
		c = append(c, "missing-svc")
		return rapid.SampledFrom(c).Draw(t, l)
	}
	genBackend := func(l, nsn string) Backend {
		b := Backend{Svc: svcName(l+"svc", nsn)}
		// designate by number or name, drawn from the service's own ports or colliding values
		var nums []int
		var names []string
		for _, s := range w.Services {
			if s.Ns == nsn && s.Name == b.Svc {
				for _, p := range s.Ports {
					nums = append(nums, p.Port)
					if p.TargetNum != 0 {
						nums = append(nums, p.TargetNum)
					}
					if p.Name != "" {
						names = append(names, p.Name)
					}
					if p.TargetName != "" {
						names = append(names, p.TargetName)
					}
				}
			}
		}
		nums = append(nums, 9999)
		names = append(names, "nosuch")
		if rapid.Bool().Draw(t, l+"byname") {
			b.PortName = rapid.SampledFrom(names).Draw(t, l+"pname")
		} else {
			b.PortNum = rapid.SampledFrom(nums).Draw(t, l+"pnum")
		}
		return b
	}
	objNs := func(l string) string {
		if len(w.Services) > 0 && rapid.IntRange(0, 3).Draw(t, l+"nsfromsvc") > 0 {
			return w.Services[rapid.IntRange(0, len(w.Services)-1).Draw(t, l+"sv")].Ns
		}
		return ns(l + "ns")
	}
	ni := rapid.IntRange(0, 2).Draw(t, "ning")
	for i := 0; i < ni; i++ {
		l := fmt.Sprintf("ing%d", i)
		g := Ing{Ns: objNs(l), Name: l}
		if rapid.Bool().Draw(t, l+"def") {
			b := genBackend(l+"def", g.Ns)
			g.Default = &b
		}
		if rapid.Bool().Draw(t, l+"hosts") {
			g.HostStyle = rapid.IntRange(1, 20).Draw(t, l+"hoststyle")
		}
		nr := rapid.IntRange(0, 3).Draw(t, l+"nr")
		for r := 0; r < nr; r++ {
			var paths []Backend
			// no path = a rule that names a host only
			npth := rapid.IntRange(0, 3).Draw(t, fmt.Sprintf("%sr%dnp", l, r))
			for p := 0; p < npth; p++ {
				paths = append(paths, genBackend(fmt.Sprintf("%sr%dp%d", l, r, p), g.Ns))
			}
			g.Rules = append(g.Rules, paths)
		}
		w.Ingresses = append(w.Ingresses, g)
	}
	nr := rapid.IntRange(0, 2).Draw(t, "nroute")
	for i := 0; i < nr; i++ {
		l := fmt.Sprintf("rt%d", i)
		r := Route{Ns: objNs(l), Name: l}
		r.To = svcName(l+"to", r.Ns)
		if rapid.Bool().Draw(t, l+"alt") {
			r.Alt = []string{svcName(l+"altsvc", r.Ns)}
		}
		// unambiguous designations only (DESIGN C10): absent, or a service-port NAME of the `to` service that is
		// not also used as a targetPort name by that service. With alternate backends the name must be
		// unambiguous in each of them too, so a port designation is only drawn without alternates.
		if len(r.Alt) == 0 && rapid.Bool().Draw(t, l+"hasport") {
			var names []string
			for _, s := range w.Services {
				if s.Ns == r.Ns && s.Name == r.To {
					for _, p := range s.Ports {
						clash := false
						for _, q := range s.Ports {
							if q.TargetName == p.Name {
								clash = true
							}
						}
						if p.Name != "" && !clash {
							names = append(names, p.Name)
						}
					}
				}
			}
			if len(names) > 0 {
				r.TargetName = rapid.SampledFrom(names).Draw(t, l+"tn")
			}
		}
		if rapid.IntRange(0, 2).Draw(t, l+"kinds") == 0 {
			for i := 0; i <= len(r.Alt); i++ {
				r.Kinds = append(r.Kinds, rapid.SampledFrom([]string{"", "omit", "omit", "Bucket"}).Draw(t, fmt.Sprintf("%skind%d", l, i)))
			}
		}
		w.Routes = append(w.Routes, r)
	}
	// a locked-down application: every pod may be reached by pods only and may reach nothing, so that no connection at all
	// exists between workloads or with IP ranges - the ingress controller (which no policy governs) still gets through
	if rapid.IntRange(0, 9).Draw(t, "inglocked") == 0 {
		w.ANPs, w.BANP = nil, nil
		if rapid.Bool().Draw(t, "inglockeddropnp") {
			w.NPs = nil
		}
		seen := map[string]bool{}
		for _, x := range w.Workloads {
			if seen[x.Ns] {
				continue
			}
			seen[x.Ns] = true
			w.NPs = append(w.NPs, NetPol{Ns: x.Ns, Name: "np-locked", PolicyTypes: []string{"Ingress", "Egress"},
				Ingress: []Rule{{Peers: []Peer{{NsSel: &Selector{}}}}}})
		}
	}
	// documents of namespace "default" written without metadata.namespace (workloads, Services, Ingresses, Routes)
	if omitNs {
		if w.OmitNs == nil {
			w.OmitNs = map[string]bool{}
		}
		for i := range w.Services {
			if w.Services[i].Ns == "default" && rapid.Bool().Draw(t, fmt.Sprintf("ingomitsvc%d", i)) {
				w.OmitNs["svc/"+w.Services[i].Name] = true
			}
		}
		for i := range w.Ingresses {
			if w.Ingresses[i].Ns == "default" && rapid.Bool().Draw(t, fmt.Sprintf("ingomiting%d", i)) {
				w.OmitNs["ing/"+w.Ingresses[i].Name] = true
			}
		}
		for i := range w.Routes {
			if w.Routes[i].Ns == "default" && rapid.Bool().Draw(t, fmt.Sprintf("ingomitrt%d", i)) {
				w.OmitNs["rt/"+w.Routes[i].Name] = true
			}
		}
	}
	return w
}

func sortedKeysS(m map[string]string) []string {
	var ks []string
	for k := range m {
		ks = append(ks, k)
	}
	sortStrings(ks)
	return ks
}

func superset(big, small map[string]string) bool {
	for k, v := range small {
		if bv, ok := big[k]; !ok || bv != v {
			return false
		}
	}
	return true
}

// ---------- reference: TCP ports of W reachable via Ingress/Route objects, before the policy intersection ----------

// ingressPorts implements the statement of C10 literally. lenient=true additionally models the recorded
// finding F-C10-2 (an Ingress backend port number also matches a service port's numeric targetPort), so that
// the oracle can recognise exactly that signature.
func ingressPorts(w *World, W *Workload, lenient bool) (res map[int]bool, targeted bool) {
	res = map[int]bool{}
	tcpPorts := map[int]bool{}
	for _, cp := range W.Ports {
		if protoOr(cp.Proto) == "TCP" {
			tcpPorts[cp.Number] = true
		}
	}
	target := func(sp SvcPort) {
		p := sp.Port
		if sp.TargetNum != 0 {
			p = sp.TargetNum
		} else if sp.TargetName != "" {
			p = 0
			// the first port of that name in the pod, containers in their order (names are unique per container only)
			for _, cp := range W.flatPorts() {
				if cp.Name == sp.TargetName {
					if protoOr(cp.Proto) == "TCP" {
						p = cp.Number
					}
					break
				}
			}
		}
		if p != 0 && tcpPorts[p] {
			res[p] = true
		}
	}
	find := func(ns, name string) *Svc {
		var last *Svc
		for i := range w.Services {
			if w.Services[i].Ns == ns && w.Services[i].Name == name {
				last = &w.Services[i]
			}
		}
		// (a Service without a selector has no endpoints of its own: it selects nothing)
		if last == nil || last.Ns != W.Ns || len(last.Selector) == 0 || !superset(W.Labels, last.Selector) {
			return nil
		}
		return last
	}
	for _, g := range w.Ingresses {
		var bs []Backend
		if g.Default != nil {
			bs = append(bs, *g.Default)
		}
		for _, r := range g.Rules {
			bs = append(bs, r...)
		}
		for _, b := range bs {
			s := find(g.Ns, b.Svc)
			if s == nil {
				continue
			}
			targeted = true
			for _, sp := range s.Ports {
				if b.PortName != "" && sp.Name == b.PortName || b.PortName == "" && sp.Port == b.PortNum ||
					lenient && b.PortName == "" && sp.TargetNum == b.PortNum {
					target(sp)
					break
				}
			}
		}
	}
	for _, r := range w.Routes {
		for i, sn := range append([]string{r.To}, r.Alt...) {
			if _, isSvc := r.refKind(i); !isSvc {
				continue // a reference to something that is not a Service
			}
			s := find(r.Ns, sn)
			if s == nil {
				continue
			}
			targeted = true
			for _, sp := range s.Ports {
				if r.TargetName == "" {
					target(sp)
				} else if sp.Name == r.TargetName {
					target(sp)
					break
				}
			}
		}
	}
	return res, targeted
}

// flatPorts: the container ports of the workload's pods in the order of the pod spec (podSpec deals Ports over the
// containers alternately; the pod's port list is container by container).
func (wl *Workload) flatPorts() []CPort {
	n := 1
	if wl.SplitContainers {
		n = 2
	}
	if wl.NCont > 0 {
		n = wl.NCont
	}
	var out []CPort
	for c := 0; c < n; c++ {
		for i, p := range wl.Ports {
			if i%n == c {
				out = append(out, p)
			}
		}
	}
	return out
}

// worldUsesPortName: some policy rule of the world names this port.
func worldUsesPortName(w *World, name string) bool {
	for _, p := range w.NPs {
		for _, rs := range [][]Rule{p.Ingress, p.Egress} {
			for _, r := range rs {
				for _, pp := range r.Ports {
					if pp.PortNam == name {
						return true
					}
				}
			}
		}
	}
	var as []AdminPol
	as = append(as, w.ANPs...)
	if w.BANP != nil {
		as = append(as, *w.BANP)
	}
	for _, a := range as {
		for _, rs := range [][]ARule{a.Ingress, a.Egress} {
			for _, r := range rs {
				for _, ap := range r.Ports {
					if ap.Name == name {
						return true
					}
				}
			}
		}
	}
	return false
}
