package harness

import (
	"fmt"
	"os"
	"strings"
	"testing"

	"pgregory.net/rapid"
)

// ---------- C06 (soundness, base report untouched) and C07 (completeness) of exposure analysis ----------

type ExpoCase struct {
	W    *World
	Tape []uint32
	// Twice: the exposure run analyses the input twice on one analyzer and the second result is judged
	Twice bool `json:",omitempty"`
}

func genExpo(t *rapid.T) *ExpoCase {
	var w *World
	if rapid.IntRange(0, 5).Draw(t, "expoworld") == 0 {
		// NetworkPolicies next to Services, Ingresses and Routes: the ingress-controller lines are part of the base report
		w = GenIngressWorld(t, false)
	} else {
		w = GenExposureWorld(t)
	}
	return &ExpoCase{W: w, Tape: rapid.SliceOfN(rapid.Uint32Range(0, 1<<20), 200, 600).Draw(t, "tape"), Twice: rapid.IntRange(0, 3).Draw(t, "twice") == 0}
}

func xentryStr(e *XEntry) string {
	if e.Entire {
		return fmt.Sprintf("{entire-cluster conn=%q}", e.Conn.Raw)
	}
	return fmt.Sprintf("{ns=%+v pod=%+v conn=%q}", e.Ns, e.Pod, e.Conn.Raw)
}

type expoRun struct {
	base, xr *ListRes
	xp       map[string]*XPeer
}

// runExpo runs plain list and list --exposure; skip=true when the plain run cannot analyse the input.
func runExpo(w *World, st *VStats, twice ...bool) (r *expoRun, skip bool, f *VFailure) {
	dir := w.WriteDir()
	defer os.RemoveAll(dir)
	base := RunList(dir, ListOpts{})
	if base.Panic != nil {
		return nil, false, &VFailure{Msg: fmt.Sprintf("list panicked: %v", base.Panic), Sig: "panic"}
	}
	xr := RunList(dir, ListOpts{Exposure: true, Twice: len(twice) > 0 && twice[0], Format: "txt", WantOutput: true})
	if xr.Panic != nil {
		return nil, false, &VFailure{Msg: fmt.Sprintf("list --exposure panicked: %v", xr.Panic), Sig: "panic"}
	}
	if base.Err != nil {
		// no report to compare with (e.g. the documented named-port-on-IP error); exposure mode may still answer
		st.Class("skip: plain list returned an error")
		return nil, true, nil
	}
	if xr.Err != nil {
		return nil, false, vfail("C06(a): list --exposure fails where plain list succeeds: %v", xr.Err)
	}
	r = &expoRun{base: base, xr: xr, xp: map[string]*XPeer{}}
	for i := range xr.Exposed {
		r.xp[xr.Exposed[i].Peer] = &xr.Exposed[i]
	}
	return r, false, nil
}

func (r *expoRun) entries(W *Workload, dir string) (prot bool, ents []XEntry) {
	xpw := r.xp[W.PeerString()]
	if xpw == nil {
		return true, nil
	}
	if dir == "Ingress" {
		return xpw.ProtIn, xpw.In
	}
	return xpw.ProtEg, xpw.Eg
}

func governed(w *World, W *Workload, dir string) bool {
	for i := range w.NPs {
		if w.npGoverns(&w.NPs[i], W, dir) {
			return true
		}
	}
	return false
}

func hypoPoints(w *World, H *Workload, conn *XConn) []int {
	pm := map[int]bool{}
	for _, p := range w.portConstants() {
		pm[p] = true
	}
	for _, cp := range H.Ports {
		for _, x := range []int{cp.Number - 1, cp.Number, cp.Number + 1} {
			if x >= 1 && x <= 65535 {
				pm[x] = true
			}
		}
	}
	if conn != nil {
		for _, x := range conn.Breakpoints() {
			for _, y := range []int{x - 1, x, x + 1} {
				if y >= 1 && y <= 65535 {
					pm[y] = true
				}
			}
		}
	}
	return sortedInts(pm)
}

// realizable: hypothetical pods that satisfy the entry's selectors get at least the reported connections.
func realizable(tp *Tape, w *World, W *Workload, dir string, e *XEntry, how string, st *VStats) (nontrivial bool, f *VFailure) {
	for k := 0; k < 4; k++ {
		w2, H, ok := hypoFor(tp, w, &e.Ns, &e.Pod, e.Entire)
		if !ok {
			st.Class("unsatisfiable selector pair (vacuous)")
			continue
		}
		if !e.Entire {
			nontrivial = true
		}
		if len(H.Ports) > 0 {
			st.Class("hypothetical pod declares named ports")
		}
		res := H
		if dir == "Ingress" {
			res = W
		}
		for _, proto := range protos {
			for _, port := range hypoPoints(w, H, e.Conn) {
				if !e.Conn.Has(proto, port, res) {
					continue
				}
				st.Points(1)
				dst := End{W: H}
				if dir == "Ingress" {
					dst = End{W: W}
				}
				if _, ok := w2.npVerdict(W, End{W: H}, dir, proto, port, dst); !ok {
					return nontrivial, vfail("C06(c) UNSOUND exposure%s: %s %s entry %s; hypothetical pod %+v in namespace %s with labels %v satisfies the entry, but %s/%d is not allowed by the workload's policies", how, W.PeerString(), dir, xentryStr(e), *H, H.Ns, w2.nsLabels(H.Ns), proto, port)
				}
			}
		}
	}
	return nontrivial, nil
}

func checkC06(c *ExpoCase, st *VStats) *VFailure {
	w := c.W
	r, skip, f := runExpo(w, st, c.Twice)
	if f != nil || skip {
		return f
	}
	// (a) the base report is unchanged (entries between real workloads and IP peers)
	if r.base.Rel() != r.xr.Rel() {
		return vfail("C06(a): list --exposure reports different workload/IP connectivity than plain list\n--- plain\n%s\n--- with --exposure\n%s", r.base.Rel(), r.xr.Rel())
	}
	if len(r.xr.WF) > 0 {
		return vfail("ill-formed report with --exposure: %s", strings.Join(r.xr.WF, "; "))
	}
	tp := &Tape{V: c.Tape}
	nontrivial := false
	for wi := range w.Workloads {
		W := &w.Workloads[wi]
		for _, dir := range []string{"Ingress", "Egress"} {
			gov := governed(w, W, dir)
			prot, ents := r.entries(W, dir)
			// (b) protected flag
			if prot != gov {
				return vfail("C06(b): %s %s is reported protected=%v but a NetworkPolicy governs it in that direction=%v", W.PeerString(), dir, prot, gov)
			}
			if !gov {
				continue
			}
			// (c) realizability
			for ei := range ents {
				nt, f := realizable(tp, w, W, dir, &ents[ei], "", st)
				if f != nil {
					return f
				}
				nontrivial = nontrivial || nt
			}
		}
	}
	// (d) the report AS PRINTED (txt): every potential-peer line, read back into a selector pair, is realizable too -
	// `list --exposure` is what the statement names, and a designation that drops a requirement promises too much
	if p, err := ParseList("txt", r.xr.Out); err == nil {
		for _, x := range p.Exposure {
			if x.Peer == "entire-cluster" {
				continue
			}
			parts := strings.SplitN(x.Peer, " || ", 2)
			if len(parts) != 2 {
				continue
			}
			ns, ok1 := parseDesignationPart(parts[0], true)
			pod, ok2 := parseDesignationPart(parts[1], false)
			if !ok1 || !ok2 {
				st.Class("printed designation not read back")
				continue
			}
			for wi := range w.Workloads {
				W := &w.Workloads[wi]
				if W.PeerString() != x.W || !governed(w, W, x.Dir) {
					continue
				}
				e := XEntry{Ns: *ns, Pod: *pod, Conn: ParseConn(x.Conn)}
				if _, f := realizable(tp, w, W, x.Dir, &e, " (as printed in the txt report)", st); f != nil {
					return f
				}
				st.Class("printed exposure line checked for realizability")
			}
		}
	}
	if nontrivial {
		st.NonTrivialCase(c)
	}
	return nil
}

func checkC07(c *ExpoCase, st *VStats) *VFailure {
	w := c.W
	r, skip, f := runExpo(w, st)
	if f != nil {
		// a failing exposure run is C06(a)'s business; here there is nothing to check completeness of
		if f.Sig == "" {
			st.Class("skip: exposure run failed (reported under C06)")
			return nil
		}
		return f
	}
	if skip {
		return nil
	}
	tp := &Tape{V: c.Tape}
	nontrivial := false
	for wi := range w.Workloads {
		W := &w.Workloads[wi]
		for _, dir := range []string{"Ingress", "Egress"} {
			if !governed(w, W, dir) {
				continue
			}
			_, ents := r.entries(W, dir)
			// selector pairs of the governing policies' rule peers: half of the hypothetical pods are built from them
			var sels [][2]*Selector
			for i := range w.NPs {
				p := &w.NPs[i]
				if !w.npGoverns(p, W, dir) {
					continue
				}
				rules := p.Ingress
				if dir == "Egress" {
					rules = p.Egress
				}
				for _, rl := range rules {
					for pi := range rl.Peers {
						pe := rl.Peers[pi]
						if pe.IPBlock != nil {
							continue
						}
						ns := pe.NsSel
						if ns == nil {
							ns = &Selector{MatchLabels: map[string]string{nsNameKey: p.Ns}}
						}
						ps := pe.PodSel
						if ps == nil {
							ps = &Selector{}
						}
						sels = append(sels, [2]*Selector{ns, ps})
					}
				}
			}
			for k := 0; k < 10; k++ {
				var w2 *World
				var H *Workload
				ok := false
				if k%2 == 0 || len(sels) == 0 {
					w2, H, ok = hypoFor(tp, w, nil, nil, true)
				} else {
					s := sels[tp.Pick(len(sels))]
					w2, H, ok = hypoFor(tp, w, s[0], s[1], false)
				}
				if !ok {
					continue
				}
				if len(H.Ports) > 0 {
					st.Class("hypothetical pod declares named ports")
				} else {
					st.Class("hypothetical pod without ports")
				}
				res := H
				if dir == "Ingress" {
					res = W
				}
				pm := map[int]bool{}
				for _, p := range hypoPoints(w, H, nil) {
					pm[p] = true
				}
				for ei := range ents {
					for _, p := range hypoPoints(w, H, ents[ei].Conn) {
						pm[p] = true
					}
				}
				for _, proto := range protos {
					for _, port := range sortedInts(pm) {
						if !w2.npAllowsNonExempt(w, W, H, dir, proto, port) {
							continue
						}
						nontrivial = true
						st.Points(1)
						covered := false
						for ei := range ents {
							e := &ents[ei]
							if (e.Entire || selMatch(&e.Ns, w2.nsLabels(H.Ns)) && selMatch(&e.Pod, H.Labels)) && e.Conn.Has(proto, port, res) {
								covered = true
							}
						}
						if !covered {
							var es []string
							for ei := range ents {
								es = append(es, xentryStr(&ents[ei]))
							}
							return vfail("C07 INCOMPLETE exposure: %s %s: the policies allow %s/%d with hypothetical pod %+v in namespace %s (labels %v) through a rule that no existing workload satisfies, but no reported entry covers it; entries: %v", W.PeerString(), dir, proto, port, *H, H.Ns, w2.nsLabels(H.Ns), es)
						}
					}
				}
			}
		}
	}
	if nontrivial {
		st.NonTrivialCase(c)
	}
	return nil
}

func init() {
	vRegister("C06", checkC06)
	vRegister("C07", checkC07)
}

func TestC06(t *testing.T) { vRunProp(t, "C06", genExpo, checkC06) }
func TestC07(t *testing.T) { vRunProp(t, "C07", genExpo, checkC07) }
