package harness

import (
	"fmt"
	"os"
	"regexp"
	"strings"
	"testing"

	"pgregory.net/rapid"
)

// ---------- C08: output is deterministic and independent of the order of the input ----------

type C08Variant struct {
	W *World
	L *Layout
}

type C08Case struct {
	A        *World
	Variants []C08Variant // re-layouts / permutations of A
	Exposure bool
	B        *World       // second input for the diff formats (optional)
	BVar     []C08Variant // re-layouts of B
}

func c08Reps() int {
	if os.Getenv("VERIF_TIER") == "thorough" {
		return 8
	}
	return 4
}

func genVariants(t *rapid.T, label string, w *World, n int) []C08Variant {
	var vs []C08Variant
	for i := 0; i < n; i++ {
		l := fmt.Sprintf("%sv%d", label, i)
		pw := PermuteWorld(t, l, w)
		vs = append(vs, C08Variant{W: pw, L: GenLayout(t, l+"lay", len(pw.Docs()))})
	}
	return vs
}

func genC08(t *rapid.T) *C08Case {
	c := &C08Case{}
	nvar := 3
	if os.Getenv("VERIF_TIER") == "thorough" {
		nvar = 6
	}
	switch rapid.IntRange(0, 4).Draw(t, "worldkind") {
	case 0:
		c.A = GenWorld(t, GenCfg{Admin: true, NoNamedRisk: true})
	case 1:
		c.A = GenIngressWorld(t, true)
	case 2, 3:
		// order can only matter where first-come state is shared: near-duplicate selector pairs (DESIGN C08)
		c.A = GenExposureWorld(t)
		c.Exposure = true
	default:
		c.A = GenWorld(t, GenCfg{NoNamedRisk: true, OmitNs: true})
		c.Exposure = rapid.Bool().Draw(t, "exposure")
	}
	c.Variants = genVariants(t, "a", c.A, nvar)
	if rapid.IntRange(0, 2).Draw(t, "withdiff") == 0 {
		c.B = editWorld(t, c.A)
		c.BVar = genVariants(t, "b", c.B, 2)
	}
	return c
}

func listOutputs(dir string, exposure bool) (map[string]string, error, interface{}) {
	res := map[string]string{}
	for _, f := range listFormats {
		r := RunList(dir, ListOpts{Exposure: exposure, Format: f, WantOutput: true})
		if r.Panic != nil {
			return nil, nil, r.Panic
		}
		if r.Err != nil {
			return nil, r.Err, nil
		}
		if r.OutErr != nil {
			return nil, r.OutErr, nil
		}
		res[f] = r.Out
	}
	return res, nil, nil
}

func diffOutputs(d1, d2 string) (map[string]string, error, interface{}) {
	res := map[string]string{}
	for _, f := range diffFormats {
		r := RunDiff(d1, d2, DiffOpts{Format: f, WantOutput: true})
		if r.Panic != nil {
			return nil, nil, r.Panic
		}
		if r.Err != nil {
			return nil, r.Err, nil
		}
		res[f] = r.Out
	}
	return res, nil, nil
}

func firstDiff(a, b string) string {
	la, lb := strings.Split(a, "\n"), strings.Split(b, "\n")
	for i := 0; i < len(la) || i < len(lb); i++ {
		var x, y string
		if i < len(la) {
			x = la[i]
		}
		if i < len(lb) {
			y = lb[i]
		}
		if x != y {
			return fmt.Sprintf("first differing line %d:\n  %q\n  %q", i+1, x, y)
		}
	}
	return "(no differing line?)"
}

func checkC08(c *C08Case, st *VStats) *VFailure {
	dir := c.A.WriteDir()
	defer os.RemoveAll(dir)
	base, err, pan := listOutputs(dir, c.Exposure)
	if pan != nil {
		return &VFailure{Msg: fmt.Sprintf("list panicked: %v", pan), Sig: "panic"}
	}
	if err != nil {
		st.Class("skip: list returned an error")
		return nil
	}
	// run-to-run (every range over a map inside the tool is re-randomised per run)
	for rep := 0; rep < c08Reps(); rep++ {
		again, err, pan := listOutputs(dir, c.Exposure)
		if pan != nil || err != nil {
			return vfail("a repeated run on identical files fails: %v %v", err, pan)
		}
		for _, f := range listFormats {
			if base[f] != again[f] {
				return vfail("RUN-TO-RUN difference on identical files (exposure=%v, format %s): %s", c.Exposure, f, firstDiff(base[f], again[f]))
			}
		}
	}
	var vdirs []string
	defer func() {
		for _, d := range vdirs {
			os.RemoveAll(d)
		}
	}()
	for vi, v := range c.Variants {
		d2 := v.W.WriteLayout(v.L)
		vdirs = append(vdirs, d2)
		perm, err, pan := listOutputs(d2, c.Exposure)
		if pan != nil || err != nil {
			return vfail("the re-ordered input (variant %d) fails where the original succeeds: %v %v", vi, err, pan)
		}
		for _, f := range listFormats {
			if base[f] != perm[f] {
				fl := vfail("ORDER DEPENDENCE (exposure=%v, format %s, variant %d: same resources, documents/rules permuted and re-partitioned into files): %s", c.Exposure, f, vi, firstDiff(base[f], perm[f]))
				if c.Exposure && hasRespelledTwins(c.A) && (sameUpToDesignationSpelling(f, base[f], perm[f]) || sameUpToTwinPeers(c.A, f, base[f], perm[f])) {
					// recorded finding F-C08-1: shape (two rule peers equal up to re-spelling) and failure (only the
					// spelling of potential-peer designations differs)
					fl.Sig = "shared-representative-peer-spelling"
				}
				return fl
			}
		}
	}
	st.Points((c08Reps() + len(c.Variants)) * len(listFormats))
	if c.B != nil {
		dirB := c.B.WriteDir()
		defer os.RemoveAll(dirB)
		dbase, err, pan := diffOutputs(dir, dirB)
		if pan != nil {
			return &VFailure{Msg: fmt.Sprintf("diff panicked: %v", pan), Sig: "panic"}
		}
		if err == nil {
			for rep := 0; rep < c08Reps()/2; rep++ {
				again, err, pan := diffOutputs(dir, dirB)
				if pan != nil || err != nil {
					return vfail("a repeated diff on identical files fails: %v %v", err, pan)
				}
				for _, f := range diffFormats {
					if dbase[f] != again[f] {
						return vfail("RUN-TO-RUN difference of diff on identical files (format %s): %s", f, firstDiff(dbase[f], again[f]))
					}
				}
			}
			for vi, v := range c.BVar {
				d2 := v.W.WriteLayout(v.L)
				vdirs = append(vdirs, d2)
				da := dir
				if vi < len(vdirs)-1 && len(c.Variants) > 0 {
					da = vdirs[vi%len(c.Variants)]
				}
				perm, err, pan := diffOutputs(da, d2)
				if pan != nil || err != nil {
					return vfail("diff of the re-ordered inputs fails where the original succeeds: %v %v", err, pan)
				}
				for _, f := range diffFormats {
					if dbase[f] != perm[f] {
						return vfail("ORDER DEPENDENCE of diff (format %s, variant %d): %s", f, vi, firstDiff(dbase[f], perm[f]))
					}
				}
			}
			st.Class("diff formats checked")
			st.Points(len(diffFormats) * (c08Reps()/2 + len(c.BVar)))
		} else {
			st.Class("skip: diff returned an error")
		}
	}
	if c.Exposure {
		st.Class("exposure on")
	}
	// non-trivial: there is a tie or a shared key for order to act on
	multi := false
	for i := range c.A.Workloads {
		n := 0
		for k := range c.A.NPs {
			if c.A.npGoverns(&c.A.NPs[k], &c.A.Workloads[i], "Ingress") || c.A.npGoverns(&c.A.NPs[k], &c.A.Workloads[i], "Egress") {
				n++
			}
		}
		if n >= 2 {
			multi = true
		}
	}
	if multi {
		st.Class(">=2 policies select one workload")
	}
	nrep := strings.Count(base["txt"], "[pod with") + strings.Count(base["txt"], "[namespace with") + strings.Count(base["txt"], "[all ")
	if nrep >= 2 {
		st.Class(">=2 potential-peer lines")
	}
	if multi || nrep >= 2 || strings.Count(base["txt"], "\n") >= 3 {
		st.NonTrivialCase(c)
	}
	return nil
}

// canonSel renders a selector up to re-spelling: label equalities (matchLabels and single-value In) merged, other
// requirements with sorted values, everything sorted.
func canonSel(s *Selector) string {
	if s == nil {
		return "<nil>"
	}
	var parts []string
	for k, v := range s.MatchLabels {
		parts = append(parts, k+"="+v)
	}
	for _, e := range s.Exprs {
		vs := append([]string{}, e.Values...)
		sortStrings(vs)
		// duplicates in a values list do not change the requirement
		var uv []string
		for i, v := range vs {
			if i == 0 || v != vs[i-1] {
				uv = append(uv, v)
			}
		}
		if e.Op == "In" && len(uv) == 1 {
			parts = append(parts, e.Key+"="+uv[0])
			continue
		}
		parts = append(parts, e.Key+" "+e.Op+" "+strings.Join(uv, ","))
	}
	sortStrings(parts)
	var up []string
	for i, x := range parts {
		if i == 0 || x != parts[i-1] {
			up = append(up, x)
		}
	}
	return strings.Join(up, ";")
}

func litSel(s *Selector) string {
	if s == nil {
		return "<nil>"
	}
	return fmt.Sprintf("%v|%v", s.MatchLabels, s.Exprs)
}

// hasRespelledTwins: two selector rule peers whose (namespace, pod) selector pairs are equal up to re-spelling (a nil
// namespaceSelector standing for the policy's namespace name) but are written differently.
func hasRespelledTwins(w *World) bool {
	type pair struct{ canon, lit string }
	var ps []pair
	for _, ref := range w.selectorPeers() {
		p := &w.NPs[ref.pol]
		rs := p.Ingress
		if ref.egress {
			rs = p.Egress
		}
		pe := rs[ref.rule].Peers[ref.peer]
		ns := pe.NsSel
		if ns == nil {
			ns = &Selector{MatchLabels: map[string]string{nsNameKey: p.Ns}}
		}
		pod := pe.PodSel
		if pod == nil {
			pod = &Selector{}
		}
		nslit := litSel(pe.NsSel)
		if pe.NsSel == nil {
			nslit = "<nil in " + p.Ns + ">"
		}
		ps = append(ps, pair{canonSel(ns) + " / " + canonSel(pod), nslit + " / " + litSel(pe.PodSel)})
	}
	for i := range ps {
		for j := i + 1; j < len(ps); j++ {
			if ps[i].canon == ps[j].canon && ps[i].lit != ps[j].lit {
				return true
			}
		}
	}
	return false
}

// sameUpToDesignationSpelling: both outputs parse, and encode the same relation once potential-peer designations are
// reduced to "potential".
func sameUpToDesignationSpelling(format, a, b string) bool {
	pa, err1 := ParseList(format, a)
	pb, err2 := ParseList(format, b)
	if err1 != nil || err2 != nil {
		return false
	}
	red := func(p *ParsedList) string {
		var xs []XTriple
		for _, x := range p.Exposure {
			if x.Peer != "entire-cluster" {
				x.Peer = "potential"
			}
			xs = append(xs, x)
		}
		sortXTriples(xs)
		return fmt.Sprint(p.Conns, xs, p.ExposureIPs, p.Unprotected)
	}
	return red(pa) == red(pb)
}

// ---- second face of F-C08-1: whether a shared representative peer is *removed* because an existing workload
// satisfies its label equalities also depends on the first-come spelling (removal looks at matchLabels only) ----

// splitTop splits s at commas that are not inside braces or brackets.
func splitTop(s string) []string {
	var parts []string
	depth, start := 0, 0
	for i, r := range s {
		switch r {
		case '{', '[':
			depth++
		case '}', ']':
			depth--
		case ',':
			if depth == 0 {
				parts = append(parts, s[start:i])
				start = i + 1
			}
		}
	}
	if start < len(s) {
		parts = append(parts, s[start:])
	}
	return parts
}

var desigReq = regexp.MustCompile(`^\{Key:(.*),Operator:(\w+),Values:\[(.*)\],\}$`)

// parseDesignationPart parses one half of a normalised designation ("ns1", "all namespaces",
// "namespace with {k=v,{Key:k,Operator:In,Values:[a b],}}", "all pods", "pod with {...}") back into a selector.
func parseDesignationPart(part string, isNs bool) (*Selector, bool) {
	sel := &Selector{MatchLabels: map[string]string{}}
	switch {
	case part == "all namespaces" || part == "all pods":
		return sel, true
	case strings.HasPrefix(part, "namespace with {") || strings.HasPrefix(part, "pod with {"):
		body := part[strings.Index(part, "{")+1:]
		if !strings.HasSuffix(body, "}") {
			return nil, false
		}
		body = body[:len(body)-1]
		for _, item := range splitTop(body) {
			if item == "" {
				continue
			}
			if m := desigReq.FindStringSubmatch(item); m != nil {
				e := Expr{Key: m[1], Op: m[2]}
				if m[3] != "" {
					e.Values = strings.Split(m[3], " ")
				} else if e.Op == "In" || e.Op == "NotIn" {
					// In/NotIn need at least one value: "[]" is how Go prints the one-element list holding the empty string
					e.Values = []string{""}
				}
				sel.Exprs = append(sel.Exprs, e)
				continue
			}
			k, v, ok := strings.Cut(item, "=")
			if !ok {
				return nil, false
			}
			sel.MatchLabels[k] = v
		}
		return sel, true
	case isNs:
		sel.MatchLabels[nsNameKey] = part
		return sel, true
	}
	return nil, false
}

// twinExempt: the canonical selector pair of the entry is a pair of non-empty label equalities that an existing
// workload (in a matching namespace) satisfies, and the world spells that pair in two ways.
func twinExempt(w *World, x XTriple) bool {
	parts := strings.SplitN(x.Peer, " || ", 2)
	if len(parts) != 2 {
		return false
	}
	ns, ok1 := parseDesignationPart(parts[0], true)
	pod, ok2 := parseDesignationPart(parts[1], false)
	if !ok1 || !ok2 {
		return false
	}
	pe, ok3 := equalities(pod)
	ne, ok4 := equalities(ns)
	if !ok3 || !ok4 || len(pe) == 0 || len(ne) == 0 {
		return false
	}
	for i := range w.Workloads {
		r := &w.Workloads[i]
		if superset(r.Labels, pe) && superset(w.nsLabels(r.Ns), ne) {
			return true
		}
	}
	return false
}

// sameUpToTwinPeers: both outputs parse and encode the same relation except for potential-peer entries whose selector
// pair is a pair of label equalities satisfied by an existing workload (entries the tool may or may not omit, depending
// on which spelling of the shared representative peer came first).
func sameUpToTwinPeers(w *World, format, a, b string) bool {
	pa, err1 := ParseList(format, a)
	pb, err2 := ParseList(format, b)
	if err1 != nil || err2 != nil {
		return false
	}
	red := func(p *ParsedList) string {
		var xs []XTriple
		for _, x := range p.Exposure {
			if x.Peer != "entire-cluster" {
				if twinExempt(w, x) {
					continue
				}
				x.Peer = "potential"
			}
			xs = append(xs, x)
		}
		sortXTriples(xs)
		return fmt.Sprint(p.Conns, xs, p.ExposureIPs, p.Unprotected)
	}
	return red(pa) == red(pb)
}

func init() { vRegister("C08", checkC08) }

func TestC08(t *testing.T) { vRunProp(t, "C08", genC08, checkC08) }
