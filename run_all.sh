#!/bin/sh
# run every check of one tier in sequence (development aid; not registered in MANIFEST)
#   ./run_all.sh quick|thorough [seed] [outdir]
tier=${1:-quick}; seed=${2:-1}; out=${3:-}
cd "$(dirname "$0")"
for p in C01 C02 C03 C04 C05 C06 C07 C08 C09 C10 C11 C12 C13 C14 C15 C16 C17 C18 C19; do
  if [ -n "$out" ]; then export VERIF_OUTDIR="$out"; fi
  VERIF_SEED=$seed ./check $p --tier $tier 2>&1 | grep -E "^(OK|VIOLATION|INFRA|KNOWN-FINDING)|^---- violation" -A1 | cut -c1-400
done
