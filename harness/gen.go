package harness

import (
	"fmt"
	"strings"

	"pgregory.net/rapid"
)

// Vocabulary: small and colliding on purpose (DESIGN §3).
var nsNames = []string{"default", "ns1", "ns2", "ns3", "ns4", "ns5", "ns6", "ns7", "ns8"}

// workload names: DNS-1123 subdomains - dots are legal, and so are more than 63 characters (the last one has 64)
var wlNames = []string{"a", "b", "c", "web", "db", "a", "b", "web", "web.v1", "l" + strings.Repeat("o", 61) + "ng"}
var labelKeys = []string{"app", "tier", "env", "a", "b", "ab"}
var labelVals = []string{"x1", "x2", "web", "db", "c", "", "Web"} // the empty string is a valid label value; labels are case-sensitive

// rarer spellings, mixed in by genLabels/genSelector in a tenth of the draws: a key with a DNS prefix and a slash, values
// that look like YAML scalars of another type, a value of the maximal length (63)
var rareLabelKeys = []string{"app.kubernetes.io/name", "example.com/tier"}
var rareLabelVals = []string{"true", "1", "null", "v" + strings.Repeat("x", 61) + "z"}

func drawLabelKey(t *rapid.T, l string, keys []string) string {
	if rapid.IntRange(0, 9).Draw(t, l+"rarek") == 0 {
		return rapid.SampledFrom(rareLabelKeys).Draw(t, l+"rk")
	}
	return rapid.SampledFrom(keys).Draw(t, l)
}

func drawLabelVal(t *rapid.T, l string, vals []string) string {
	if rapid.IntRange(0, 9).Draw(t, l+"rarev") == 0 {
		return rapid.SampledFrom(rareLabelVals).Draw(t, l+"rv")
	}
	return rapid.SampledFrom(vals).Draw(t, l)
}

var portNames = []string{"http", "dns", "metrics"}
var protos = []string{"TCP", "UDP", "SCTP"}
var portPool = []int{80, 1, 2, 53, 79, 81, 443, 8080, 8081, 65534, 65535}

// the last entries isolate the addresses the tool itself attaches to pods: status.hostIP / podIPs of the rendered Pod
// manifests (192.168.49.2, 10.244.0.7) and the host address of pods synthesised from controllers (127.0.0.1)
var cidrs = []string{"0.0.0.0/0", "0.0.0.0/1", "128.0.0.0/1", "10.0.0.0/8", "10.1.0.0/16", "10.1.2.0/24", "10.1.2.3/32", "0.0.0.0/32", "255.255.255.255/32", "172.16.0.0/12",
	"192.168.49.2/32", "192.168.49.2/31", "127.0.0.1/32", "127.0.0.0/31", "10.244.0.7/32"}
var subOf = map[string][]string{
	"0.0.0.0/0":       {"0.0.0.0/1", "128.0.0.0/1", "10.0.0.0/8", "10.1.0.0/16", "10.1.2.3/32", "0.0.0.0/32", "255.255.255.255/32", "172.16.0.0/12"},
	"0.0.0.0/1":       {"10.0.0.0/8", "10.1.2.0/24", "0.0.0.0/32", "127.0.0.1/32"},
	"128.0.0.0/1":     {"172.16.0.0/12", "255.255.255.255/32", "192.168.49.2/32"},
	"192.168.49.2/31": {"192.168.49.2/32", "192.168.49.3/32"},
	"127.0.0.0/31":    {"127.0.0.1/32"},
	"10.0.0.0/8":      {"10.1.0.0/16", "10.1.2.0/24", "10.1.2.3/32"},
	"10.1.0.0/16":     {"10.1.2.0/24", "10.1.2.3/32"},
	"10.1.2.0/24":     {"10.1.2.3/32", "10.1.2.0/25", "10.1.2.128/25"},
	"172.16.0.0/12":   {"172.16.0.0/16", "172.31.255.255/32"},
}
var allKinds = []string{"Deployment", "Pod", "StatefulSet", "DaemonSet", "ReplicaSet", "Job", "CronJob", "ReplicationController", "Owned:ReplicaSet", "Owned:StatefulSet", "Owned2:ReplicaSet", "Owned:TaskRun"}

// GenCfg selects the sub-generator ("NP-only world", "admin world", ...).
type GenCfg struct {
	Admin       bool     // ANPs / BANP
	MaxWl       int      // default 5
	MaxNP       int      // default 4
	Kinds       []string // default allKinds
	NoIPBlocks  bool
	NoNamesake  bool // never add a bare Pod that shares namespace and name with a controller workload
	NoNamedRisk bool // never generate named ports that may have to be resolved on an IP
	OmitNs      bool // allow documents without metadata.namespace
	Exposureish bool // bias selectors towards values no workload has
	MaxANP      int  // default 6
}

func genPort(t *rapid.T, label string) int {
	if rapid.IntRange(0, 3).Draw(t, label+"pool") > 0 {
		return rapid.SampledFrom(portPool).Draw(t, label)
	}
	return rapid.IntRange(1, 65535).Draw(t, label)
}

func genLabels(t *rapid.T, label string, max int) map[string]string {
	n := rapid.IntRange(0, max).Draw(t, label+"n")
	m := map[string]string{}
	for i := 0; i < n; i++ {
		m[drawLabelKey(t, label+"k", labelKeys)] = drawLabelVal(t, label+"v", labelVals)
	}
	return m
}

func genCIDR(t *rapid.T, label string) *IPBlock {
	if rapid.IntRange(0, 7).Draw(t, label+"rnd") == 0 {
		// random prefix of a random address
		n := rapid.IntRange(0, 32).Draw(t, label+"plen")
		a := rapid.Uint32().Draw(t, label+"addr")
		var mask uint32
		if n > 0 {
			mask = ^uint32(0) << uint(32-n)
		}
		a &= mask
		b := &IPBlock{CIDR: fmt.Sprintf("%d.%d.%d.%d/%d", a>>24, (a>>16)&255, (a>>8)&255, a&255, n)}
		if n < 31 && rapid.Bool().Draw(t, label+"hasex") {
			// except: a sub-block obtained by lengthening the prefix
			m := rapid.IntRange(n+1, 32).Draw(t, label+"explen")
			extra := rapid.Uint32().Draw(t, label+"exbits")
			var emask uint32 = ^uint32(0) << uint(32-m)
			e := (a | (extra &^ mask)) & emask
			b.Except = append(b.Except, fmt.Sprintf("%d.%d.%d.%d/%d", e>>24, (e>>16)&255, (e>>8)&255, e&255, m))
		}
		return b
	}
	c := rapid.SampledFrom(cidrs).Draw(t, label+"cidr")
	b := &IPBlock{CIDR: c}
	if subs, ok := subOf[c]; ok {
		ne := rapid.IntRange(0, 3).Draw(t, label+"nex")
		for j := 0; j < ne; j++ {
			b.Except = append(b.Except, rapid.SampledFrom(subs).Draw(t, label+"ex"))
		}
	}
	return b
}

func genSelector(t *rapid.T, label string, nsSel bool, cfg *GenCfg) *Selector {
	s := &Selector{}
	keys := labelKeys
	vals := labelVals
	if nsSel {
		// weight the automatic label up (DESIGN C01: slowest-dying mutant)
		keys = append([]string{nsNameKey, nsNameKey}, labelKeys...)
	}
	if cfg != nil && cfg.Exposureish {
		vals = append([]string{"fresh1", "fresh2"}, labelVals...)
	}
	drawVal := func(k, l string) string {
		if k == nsNameKey {
			return rapid.SampledFrom(append([]string{"nsX"}, nsNames[:5]...)).Draw(t, l+"nsv")
		}
		return drawLabelVal(t, l, vals)
	}
	if rapid.IntRange(0, 2).Draw(t, label+"ml") > 0 {
		s.MatchLabels = map[string]string{}
		n := rapid.IntRange(0, 2).Draw(t, label+"mln")
		for i := 0; i < n; i++ {
			k := drawLabelKey(t, label+"mk", keys)
			s.MatchLabels[k] = drawVal(k, label+"mv")
		}
	}
	ne := 0
	if rapid.IntRange(0, 2).Draw(t, label+"useexpr") == 0 {
		ne = rapid.IntRange(1, 2).Draw(t, label+"ne")
		if rapid.IntRange(0, 7).Draw(t, label+"manyexpr") == 0 {
			ne = rapid.IntRange(3, 4).Draw(t, label+"ne2") // several requirements, often on the same key
		}
	}
	for i := 0; i < ne; i++ {
		e := Expr{Key: drawLabelKey(t, label+"ek", keys), Op: rapid.SampledFrom([]string{"In", "NotIn", "Exists", "DoesNotExist"}).Draw(t, label+"op")}
		if e.Op == "In" || e.Op == "NotIn" {
			nv := rapid.IntRange(1, 2).Draw(t, label+"nv")
			if rapid.IntRange(0, 7).Draw(t, label+"manyvals") == 0 {
				nv = rapid.IntRange(3, 6).Draw(t, label+"nv2")
			}
			for j := 0; j < nv; j++ {
				e.Values = append(e.Values, drawVal(e.Key, label+"ev"))
			}
		}
		s.Exprs = append(s.Exprs, e)
	}
	return s
}

func genPPort(t *rapid.T, label string, allowNamed bool) PPort {
	pp := PPort{}
	if rapid.IntRange(0, 2).Draw(t, label+"hasproto") > 0 {
		pp.Proto = rapid.SampledFrom(protos).Draw(t, label+"proto")
	}
	k := rapid.IntRange(0, 4).Draw(t, label+"kind")
	switch {
	case k == 0: // protocol only
	case k == 1 && allowNamed:
		pp.PortNam = rapid.SampledFrom(portNames).Draw(t, label+"nam")
	case k == 2:
		pp.PortNum = genPort(t, label+"p")
		pp.EndPort = pp.PortNum + rapid.SampledFrom([]int{0, 1, 2, 10, 1000, 70000}).Draw(t, label+"span")
		if pp.EndPort > 65535 {
			pp.EndPort = 65535
		}
	default:
		pp.PortNum = genPort(t, label+"p")
	}
	return pp
}

func genRule(t *rapid.T, label string, egress bool, cfg *GenCfg) Rule {
	r := Rule{}
	np := rapid.IntRange(0, 3).Draw(t, label+"npeers")
	hasIP := false
	if np == 0 && rapid.IntRange(0, 3).Draw(t, label+"emptylist") == 0 {
		r.Peers = []Peer{} // present but empty list (same meaning as absent)
	}
	for i := 0; i < np; i++ {
		l := fmt.Sprintf("%speer%d", label, i)
		pe := Peer{}
		k := rapid.IntRange(0, 4).Draw(t, l+"kind")
		if cfg.NoIPBlocks && k > 2 {
			k = k - 3
		}
		switch k {
		case 0:
			pe.PodSel = genSelector(t, l+"pod", false, cfg)
		case 1:
			pe.NsSel = genSelector(t, l+"ns", true, cfg)
		case 2:
			pe.PodSel = genSelector(t, l+"pod", false, cfg)
			pe.NsSel = genSelector(t, l+"ns", true, cfg)
		default:
			pe.IPBlock = genCIDR(t, l)
			hasIP = true
		}
		r.Peers = append(r.Peers, pe)
	}
	nports := rapid.IntRange(0, 3).Draw(t, label+"nports")
	// keep NP_IP_NAMED rare: named ports on egress only when all peers are selectors
	allowNamed := !egress || (np > 0 && !hasIP)
	if !allowNamed && !cfg.NoNamedRisk {
		allowNamed = rapid.IntRange(0, 9).Draw(t, label+"riskynamed") == 0
	}
	for i := 0; i < nports; i++ {
		r.Ports = append(r.Ports, genPPort(t, fmt.Sprintf("%sport%d", label, i), allowNamed))
	}
	return r
}

func genAPeer(t *rapid.T, label string, cfg *GenCfg) APeer {
	if rapid.Bool().Draw(t, label+"isns") {
		return APeer{Namespaces: genSelector(t, label+"ns", true, cfg)}
	}
	return APeer{PodsNs: genSelector(t, label+"pns", true, cfg), PodsPod: genSelector(t, label+"ppod", false, cfg)}
}

func genARule(t *rapid.T, label string, banp bool, prevPass *ARule, cfg *GenCfg) ARule {
	acts := []string{"Allow", "Deny", "Pass"}
	if banp {
		acts = acts[:2]
	}
	r := ARule{Name: label, Action: rapid.SampledFrom(acts).Draw(t, label+"act")}
	// bias: follow a Pass rule by an Allow/Deny on the same peers and overlapping ports (DESIGN C02)
	if prevPass != nil && rapid.IntRange(0, 2).Draw(t, label+"followpass") > 0 {
		r.Action = rapid.SampledFrom(acts[:2]).Draw(t, label+"act2")
		r.Peers = append([]APeer{}, prevPass.Peers...)
		if rapid.Bool().Draw(t, label+"sameports") {
			r.HasPorts = prevPass.HasPorts
			r.Ports = append([]APort{}, prevPass.Ports...)
			return r
		}
	} else {
		np := rapid.IntRange(1, 2).Draw(t, label+"np")
		for i := 0; i < np; i++ {
			r.Peers = append(r.Peers, genAPeer(t, fmt.Sprintf("%speer%d", label, i), cfg))
		}
	}
	if rapid.IntRange(0, 2).Draw(t, label+"hasports") > 0 {
		r.HasPorts = true
		n := rapid.IntRange(1, 3).Draw(t, label+"nports")
		if rapid.IntRange(0, 11).Draw(t, label+"emptyports") == 0 {
			n = 0 // `ports: []` - present but empty: the rule matches no port at all (unlike an omitted list)
		}
		for i := 0; i < n; i++ {
			l := fmt.Sprintf("%sport%d", label, i)
			ap := APort{}
			switch rapid.IntRange(0, 2).Draw(t, l+"kind") {
			case 0:
				ap.Kind = "number"
				ap.Proto = rapid.SampledFrom([]string{"", "TCP", "UDP", "SCTP"}).Draw(t, l+"proto")
				ap.Port = genPort(t, l+"p")
			case 1:
				ap.Kind = "range"
				ap.Proto = rapid.SampledFrom([]string{"", "TCP", "UDP", "SCTP"}).Draw(t, l+"proto")
				ap.Port = genPort(t, l+"p")
				ap.End = ap.Port + rapid.SampledFrom([]int{0, 1, 2, 10, 1000, 70000}).Draw(t, l+"span")
				if ap.End > 65535 {
					ap.End = 65535
				}
			default:
				ap.Kind = "named"
				ap.Name = rapid.SampledFrom(portNames).Draw(t, l+"nam")
			}
			r.Ports = append(r.Ports, ap)
		}
	}
	return r
}

func genARules(t *rapid.T, label string, banp bool, cfg *GenCfg) []ARule {
	n := rapid.IntRange(0, 3).Draw(t, label+"n")
	var rs []ARule
	for i := 0; i < n; i++ {
		var prevPass *ARule
		if i > 0 && rs[i-1].Action == "Pass" {
			prevPass = &rs[i-1]
		}
		rs = append(rs, genARule(t, fmt.Sprintf("%s%d", label, i), banp, prevPass, cfg))
	}
	return rs
}

func genAdminPol(t *rapid.T, label string, banp bool, cfg *GenCfg) AdminPol {
	a := AdminPol{Name: label, Subject: genAPeer(t, label+"subj", cfg)}
	// bias: broad subjects so that several ANPs select the same pod
	if rapid.IntRange(0, 2).Draw(t, label+"broad") == 0 {
		a.Subject = APeer{Namespaces: &Selector{}}
	}
	a.Ingress = genARules(t, label+"i", banp, cfg)
	a.Egress = genARules(t, label+"e", banp, cfg)
	return a
}

func genWorkload(t *rapid.T, l string, ns string, cfg *GenCfg) Workload {
	kinds := cfg.Kinds
	if kinds == nil {
		kinds = allKinds
	}
	wl := Workload{Ns: ns, Name: rapid.SampledFrom(wlNames).Draw(t, l+"name"),
		Kind: rapid.SampledFrom(kinds).Draw(t, l+"kind"), Replicas: rapid.IntRange(-1, 3).Draw(t, l+"rep"), Labels: genLabels(t, l+"lab", 2)}
	np := rapid.IntRange(0, 3).Draw(t, l+"nports")
	usedNames := map[string]bool{}
	for j := 0; j < np; j++ {
		cp := CPort{Number: genPort(t, fmt.Sprintf("%scp%d", l, j)), Proto: rapid.SampledFrom([]string{"", "TCP", "UDP", "SCTP"}).Draw(t, fmt.Sprintf("%scpp%d", l, j))}
		if rapid.Bool().Draw(t, fmt.Sprintf("%scpnamed%d", l, j)) {
			n := rapid.SampledFrom(portNames).Draw(t, fmt.Sprintf("%scpn%d", l, j))
			if !usedNames[n] {
				usedNames[n] = true
				cp.Name = n
			}
		}
		wl.Ports = append(wl.Ports, cp)
	}
	wl.SplitContainers = np >= 2 && rapid.IntRange(0, 3).Draw(t, l+"split") == 0
	if isOwned(wl.Kind) && wl.Replicas >= 2 && rapid.IntRange(0, 2).Draw(t, l+"mixedapi") == 0 {
		wl.MixedOwnerAPI = true
	}
	if np >= 2 && rapid.IntRange(0, 5).Draw(t, l+"ncont") == 0 {
		// three or four containers (some may end up without ports)
		wl.NCont = rapid.IntRange(3, 4).Draw(t, l+"ncontn")
	}
	if np >= 1 && rapid.IntRange(0, 3).Draw(t, l+"helper") == 0 {
		wl.Helper = rapid.IntRange(1, 3).Draw(t, l+"helperpos")
	}
	if wl.Kind != "Pod" && !isOwned(wl.Kind) && rapid.IntRange(0, 5).Draw(t, l+"exported") == 0 {
		wl.ExportedOwner = true
	}
	if rapid.IntRange(0, 3).Draw(t, l+"objlab") == 0 {
		// decoy labels on the controller object itself (only the pod template's labels count)
		wl.ObjLabels = genLabels(t, l+"objl", 2)
	}
	return wl
}

func genNetPol(t *rapid.T, l string, ns string, cfg *GenCfg) NetPol {
	p := NetPol{Ns: ns, Name: l, PodSel: *genSelector(t, l+"sel", false, nil)}
	switch rapid.IntRange(0, 3).Draw(t, l+"pt") {
	case 1:
		p.PolicyTypes = []string{"Ingress"}
	case 2:
		p.PolicyTypes = []string{"Egress"}
	case 3:
		p.PolicyTypes = []string{"Ingress", "Egress"}
	}
	ni := rapid.IntRange(0, 3).Draw(t, l+"ni")
	for j := 0; j < ni; j++ {
		p.Ingress = append(p.Ingress, genRule(t, fmt.Sprintf("%sin%d", l, j), false, cfg))
	}
	ne := rapid.IntRange(0, 3).Draw(t, l+"ne")
	for j := 0; j < ne; j++ {
		p.Egress = append(p.Egress, genRule(t, fmt.Sprintf("%seg%d", l, j), true, cfg))
	}
	// a direction without rules may be written as an explicit empty list
	if ni == 0 {
		p.EmptyIngress = rapid.IntRange(0, 2).Draw(t, l+"emptyin") == 0
	}
	if ne == 0 {
		p.EmptyEgress = rapid.IntRange(0, 2).Draw(t, l+"emptyeg") == 0
	}
	return p
}

// GenWorld draws a world. Soundness rules of DESIGN §3 are kept by construction.
func GenWorld(t *rapid.T, cfg GenCfg) *World {
	if cfg.MaxWl == 0 {
		cfg.MaxWl = 5
	}
	if cfg.MaxNP == 0 {
		cfg.MaxNP = 4
	}
	if cfg.MaxANP == 0 {
		cfg.MaxANP = 6
	}
	w := &World{}
	nns := rapid.IntRange(1, 3).Draw(t, "nns")
	if rapid.IntRange(0, 29).Draw(t, "bigworld") == 0 {
		// a big world now and then: thresholds of the code (slice growth, sorting, cache sizes) are only crossed there
		nns = rapid.IntRange(4, 7).Draw(t, "nnsbig")
		cfg.MaxWl += 12
		cfg.MaxNP += 10
		cfg.MaxANP += 4
	}
	first := 1
	if cfg.OmitNs {
		first = 0 // include "default"
		nns++
	}
	var names []string
	for i := 0; i < nns; i++ {
		n := nsNames[first+i]
		names = append(names, n)
		w.Namespaces = append(w.Namespaces, Ns{Name: n, HasObject: rapid.IntRange(0, 2).Draw(t, fmt.Sprintf("ns%dobj", i)) > 0, Labels: genLabels(t, fmt.Sprintf("ns%dl", i), 2),
			ExplicitNameLabel: rapid.IntRange(0, 3).Draw(t, fmt.Sprintf("ns%dexpl", i)) == 0})
	}
	pickNs := func(l string) string { return names[rapid.IntRange(0, len(names)-1).Draw(t, l)] }
	nwl := rapid.IntRange(1, cfg.MaxWl).Draw(t, "nwl")
	used := map[string]bool{}
	for i := 0; i < nwl; i++ {
		l := fmt.Sprintf("wl%d", i)
		wl := genWorkload(t, l, pickNs(l+"ns"), &cfg)
		if used[wl.Ns+"/"+wl.Name] {
			continue
		}
		used[wl.Ns+"/"+wl.Name] = true
		w.Workloads = append(w.Workloads, wl)
	}
	// a bare Pod that is the namesake of a controller workload of its namespace (Deployment "db" next to Pod "db"):
	// two workloads that agree on namespace and name and differ in kind, labels and ports. Their pods have different
	// names ("db" vs "db-1"), so nothing collides - unless something is keyed by namespace/name alone.
	if !cfg.NoNamesake && len(w.Workloads) > 0 && (cfg.Kinds == nil || containsStr(cfg.Kinds, "Pod")) && rapid.IntRange(0, 5).Draw(t, "namesake") == 0 {
		src := w.Workloads[rapid.IntRange(0, len(w.Workloads)-1).Draw(t, "namesakeof")]
		if src.Kind != "Pod" && !isOwned(src.Kind) {
			twin := genWorkload(t, "namesakewl", src.Ns, &cfg)
			twin.Name, twin.Kind, twin.MixedOwnerAPI = src.Name, "Pod", false
			w.Workloads = append(w.Workloads, twin)
		}
	}
	nnp := rapid.IntRange(0, cfg.MaxNP).Draw(t, "nnp")
	for i := 0; i < nnp; i++ {
		l := fmt.Sprintf("np%d", i)
		w.NPs = append(w.NPs, genNetPol(t, l, pickNs(l+"ns"), &cfg))
	}
	if cfg.Admin {
		na := rapid.IntRange(0, cfg.MaxANP).Draw(t, "nanp")
		usedPrio := map[int]bool{}
		for i := 0; i < na; i++ {
			a := genAdminPol(t, fmt.Sprintf("anp%d", i), false, &cfg)
			if rapid.Bool().Draw(t, fmt.Sprintf("anp%dedge", i)) {
				a.Priority = rapid.SampledFrom([]int{0, 1, 2, 3, 999, 1000}).Draw(t, fmt.Sprintf("anp%dprioe", i))
			} else {
				a.Priority = rapid.IntRange(0, 1000).Draw(t, fmt.Sprintf("anp%dprio", i))
			}
			if usedPrio[a.Priority] {
				continue
			}
			usedPrio[a.Priority] = true
			w.ANPs = append(w.ANPs, a)
		}
		if rapid.Bool().Draw(t, "hasbanp") {
			b := genAdminPol(t, "banp", true, &cfg)
			w.BANP = &b
		}
	}
	if cfg.OmitNs {
		w.OmitNs = map[string]bool{}
		for i := range w.Workloads {
			if w.Workloads[i].Ns == "default" && rapid.Bool().Draw(t, fmt.Sprintf("omitwl%d", i)) {
				w.OmitNs["wl/"+w.Workloads[i].Name] = true
			}
		}
		for i := range w.NPs {
			if w.NPs[i].Ns == "default" && rapid.Bool().Draw(t, fmt.Sprintf("omitnp%d", i)) {
				w.OmitNs["np/"+w.NPs[i].Name] = true
			}
		}
	}
	return w
}

// shuffle draws a permutation inside the library so that it shrinks and replays.
func shuffle[T any](t *rapid.T, label string, xs []T) []T {
	out := append([]T{}, xs...)
	for i := len(out) - 1; i > 0; i-- {
		j := rapid.IntRange(0, i).Draw(t, fmt.Sprintf("%s%d", label, i))
		out[i], out[j] = out[j], out[i]
	}
	return out
}

// GenLayout draws a permutation of n documents and a partition into 1-4 files in 0-2 nested sub-directories with
// .yaml/.yml/.json extensions (json: single-document files only).
func GenLayout(t *rapid.T, label string, n int) *Layout {
	idx := make([]int, n)
	for i := range idx {
		idx[i] = i
	}
	perm := shuffle(t, label+"perm", idx)
	nf := rapid.IntRange(1, 4).Draw(t, label+"nfiles")
	files := make([]LFile, nf)
	dirs := []string{"", "sub", "sub/deeper", "other"}
	for i := range files {
		d := rapid.SampledFrom(dirs).Draw(t, fmt.Sprintf("%sdir%d", label, i))
		ext := rapid.SampledFrom([]string{".yaml", ".yml"}).Draw(t, fmt.Sprintf("%sext%d", label, i))
		name := fmt.Sprintf("f%d%s", i, ext)
		if d != "" {
			name = d + "/" + name
		}
		files[i].Path = name
	}
	for _, di := range perm {
		k := rapid.IntRange(0, nf-1).Draw(t, fmt.Sprintf("%sfile%d", label, di))
		files[k].Docs = append(files[k].Docs, di)
	}
	for i := range files {
		if len(files[i].Docs) >= 1 && rapid.IntRange(0, 4).Draw(t, fmt.Sprintf("%slist%d", label, i)) == 0 {
			files[i].AsList = true
		}
		if (len(files[i].Docs) == 1 || files[i].AsList) && rapid.Bool().Draw(t, fmt.Sprintf("%sjson%d", label, i)) {
			files[i].Path = strings.TrimSuffix(strings.TrimSuffix(files[i].Path, ".yaml"), ".yml") + ".json"
		}
		if !files[i].AsList && !strings.HasSuffix(files[i].Path, ".json") && rapid.IntRange(0, 2).Draw(t, fmt.Sprintf("%sstyled%d", label, i)) == 0 {
			files[i].Style = rapid.IntRange(1, 4).Draw(t, fmt.Sprintf("%sstyle%d", label, i))
		}
	}
	return &Layout{Files: files}
}

// PermuteWorld returns a copy of w in which the documents of each kind, the NetworkPolicy rules, the peers and ports
// inside a rule and the policyTypes are permuted - the re-orderings C08 names. The inside of a selector
// (matchExpressions, values) and except lists are left as written: the tool echoes a selector's spelling in exposure
// output, and the statement does not speak of them. ANP/BANP rules are ordered and are never permuted; ANP documents are.
func PermuteWorld(t *rapid.T, label string, w *World) *World {
	c := w.Clone()
	c.Namespaces = shuffle(t, label+"pns", c.Namespaces)
	c.Workloads = shuffle(t, label+"pwl", c.Workloads)
	c.ANPs = shuffle(t, label+"panp", c.ANPs)
	c.Services = shuffle(t, label+"psvc", c.Services)
	c.Ingresses = shuffle(t, label+"ping", c.Ingresses)
	c.Routes = shuffle(t, label+"prt", c.Routes)
	c.NPs = shuffle(t, label+"pnp", c.NPs)
	for i := range c.NPs {
		p := &c.NPs[i]
		l := fmt.Sprintf("%snp%d", label, i)
		if p.PolicyTypes != nil {
			p.PolicyTypes = shuffle(t, l+"pt", p.PolicyTypes)
		}
		pr := func(rs []Rule, l string) []Rule {
			rs = shuffle(t, l, rs)
			for k := range rs {
				if rs[k].Peers != nil {
					rs[k].Peers = shuffle(t, fmt.Sprintf("%speer%d", l, k), rs[k].Peers)
				}
				rs[k].Ports = shuffle(t, fmt.Sprintf("%sport%d", l, k), rs[k].Ports)
			}
			return rs
		}
		p.Ingress = pr(p.Ingress, l+"in")
		p.Egress = pr(p.Egress, l+"eg")
	}
	// inside an ANP/BANP rule the peers and the ports are unordered lists too (the RULES are ordered and stay put)
	pa := func(a *AdminPol, l string) {
		for _, rs := range [][]ARule{a.Ingress, a.Egress} {
			for k := range rs {
				rs[k].Peers = shuffle(t, fmt.Sprintf("%speers%d", l, k), rs[k].Peers)
				rs[k].Ports = shuffle(t, fmt.Sprintf("%sports%d", l, k), rs[k].Ports)
			}
		}
	}
	for i := range c.ANPs {
		pa(&c.ANPs[i], fmt.Sprintf("%sanp%d", label, i))
	}
	if c.BANP != nil {
		pa(c.BANP, label+"banp")
	}
	return c
}

func containsStr(xs []string, x string) bool {
	for _, y := range xs {
		if y == x {
			return true
		}
	}
	return false
}
