package harness

import (
	"encoding/json"
	"fmt"
	"os"
	"path/filepath"
	"sort"
	"strings"
	"testing"

	"pgregory.net/rapid"
)

// ---------- C13: bad or irrelevant documents are reported and never skew the result ----------

var unusedKindDocs = []string{
	"apiVersion: v1\nkind: ConfigMap\nmetadata: {name: cm, namespace: ns1}\ndata: {a: b}\n",
	"apiVersion: v1\nkind: Secret\nmetadata: {name: s}\nstringData: {k: v}\n",
	"apiVersion: v1\nkind: ServiceAccount\nmetadata: {name: sa, namespace: ns2}\n",
	"apiVersion: autoscaling/v2\nkind: HorizontalPodAutoscaler\nmetadata: {name: h}\nspec: {maxReplicas: 3, scaleTargetRef: {kind: Deployment, name: a, apiVersion: apps/v1}}\n",
	"apiVersion: example.com/v1\nkind: Widget\nmetadata: {name: w}\nspec: {podSelector: 5}\n",
	"apiVersion: rbac.authorization.k8s.io/v1\nkind: ClusterRole\nmetadata: {name: cr}\nrules: []\n",
	// kinds are case-sensitive: these are NOT a Deployment, a NetworkPolicy, a Pod or a Namespace, however well their
	// bodies would convert - other kinds like any other
	"apiVersion: apps/v1\nkind: deployment\nmetadata: {name: lowercase, namespace: ns1}\nspec:\n  replicas: 1\n  selector: {matchLabels: {app: x1}}\n  template: {metadata: {labels: {app: x1}}, spec: {containers: [{name: c, image: x, ports: [{containerPort: 80}]}]}}\n",
	"apiVersion: networking.k8s.io/v1\nkind: networkpolicy\nmetadata: {name: denyall, namespace: ns1}\nspec:\n  podSelector: {}\n  policyTypes: [Ingress, Egress]\n",
	"apiVersion: networking.k8s.io/v1\nkind: NETWORKPOLICY\nmetadata: {name: denyall2, namespace: ns2}\nspec:\n  podSelector: {}\n  policyTypes: [Ingress]\n",
	"apiVersion: v1\nkind: POD\nmetadata: {name: shouting, namespace: ns1, labels: {app: x1}}\nspec:\n  containers: [{name: c, image: x}]\nstatus:\n  hostIP: 192.168.49.2\n  podIPs: [{ip: 10.244.0.9}]\n",
	"apiVersion: v1\nkind: namespace\nmetadata: {name: ns1, labels: {env: x1, tier: x1}}\n",
}

// resources that decode but fail typed conversion; each carries the name a severe entry must mention
var convFailDocs = []struct{ name, doc string }{
	{"badnp", "apiVersion: networking.k8s.io/v1\nkind: NetworkPolicy\nmetadata: {name: badnp, namespace: ns1}\nspec:\n  podSelector: 5\n"},
	{"baddep", "apiVersion: apps/v1\nkind: Deployment\nmetadata: {name: baddep, namespace: ns1}\nspec:\n  replicas: three\n  selector: {matchLabels: {app: zz}}\n  template: {metadata: {labels: {app: zz}}, spec: {containers: [{name: c, image: x}]}}\n"},
	{"badpod", "apiVersion: v1\nkind: Pod\nmetadata: {name: badpod, namespace: ns1}\nspec:\n  containers:\n  - {name: c, image: x, ports: \"80\"}\n"},
	{"badanp", "apiVersion: policy.networking.k8s.io/v1alpha1\nkind: AdminNetworkPolicy\nmetadata: {name: badanp}\nspec:\n  priority: high\n  subject: {namespaces: {}}\n"},
	{"badsvc", "apiVersion: v1\nkind: Service\nmetadata: {name: badsvc, namespace: ns1}\nspec:\n  ports: \"80\"\n"},
	// a resource whose only schema violation sits in the (server-populated) status section: malformed all the same
	{"badstatusdep", "apiVersion: apps/v1\nkind: Deployment\nmetadata: {name: badstatusdep, namespace: ns1}\nspec:\n  replicas: 1\n  selector: {matchLabels: {app: zz}}\n  template: {metadata: {labels: {app: zz}}, spec: {containers: [{name: c, image: x}]}}\nstatus:\n  replicas: three\n"},
	{"badstatuscj", "apiVersion: batch/v1\nkind: CronJob\nmetadata: {name: badstatuscj, namespace: ns1}\nspec:\n  schedule: \"* * * * *\"\n  jobTemplate: {spec: {template: {metadata: {labels: {app: zz}}, spec: {containers: [{name: c, image: x}], restartPolicy: Never}}}}\nstatus:\n  active: none\n"},
	// documents without a usable name (missing, empty, generateName only): the severe entry names kind and namespace, so
	// the token a severe entry must mention is a namespace string of their own
	{"nonamedepns", "apiVersion: apps/v1\nkind: Deployment\nmetadata: {namespace: nonamedepns, generateName: gen-}\nspec:\n  replicas: three\n  selector: {matchLabels: {app: zz}}\n  template: {metadata: {labels: {app: zz}}, spec: {containers: [{name: c, image: x}]}}\n"},
	{"nonamejobns", "apiVersion: batch/v1\nkind: Job\nmetadata: {name: \"\", namespace: nonamejobns}\nspec:\n  parallelism: many\n  template: {metadata: {labels: {app: zz}}, spec: {containers: [{name: c, image: x}]}}\n"},
	{"nonamenpns", "apiVersion: networking.k8s.io/v1\nkind: NetworkPolicy\nmetadata: {namespace: nonamenpns}\nspec:\n  podSelector: 5\n"},
}

// syntactically broken files and YAML without kind - always placed as separate files
var brokenFileBodies = []string{"kind: [unclosed\n  foo: : bar\n", "{not json", "foo: bar\n", "\t\tbad: indentation\n- x\n", "apiVersion: v1\nkind: Pod\nmetadata:\n  name: p\n  labels: {a: true}\n", "apiVersion: v1\nkind: \"\"\nmetadata: {name: x}\n"}

type C13Case struct {
	Clean   string    // the valid world, one YAML stream
	CleanB  string    // a second valid world for diff
	Dirty   []C12File // Clean plus injections, laid out in files
	DirtyB  []C12File // CleanB plus injections (may be without injections)
	Broken  []string  // names of broken files (class 3) in Dirty
	Conv    []string  // resource names of conversion failures (class 4) in Dirty
	BrokenB []string
	ConvB   []string
	Fatal   bool // Dirty additionally holds a conflict that must make the run fail (C19 kind)
	// Single: the clean world as ONE multi-document file with SingleBad kind-less documents (and an unused kind)
	// inserted at drawn positions; the input path is the file itself, not a directory
	Single    string `json:",omitempty"`
	SingleBad int    `json:",omitempty"`
	// ListFile: a file of Dirty that is ONE `kind: List` document whose items are an unused kind, ListJunk items that
	// are no manifests at all (no kind) and - ListNoAPI - a Deployment item without apiVersion carrying the labels of a
	// real workload (the reader rejects each such item; none may join the analysis, and the file must be reported)
	ListFile  string `json:",omitempty"`
	ListJunk  int    `json:",omitempty"`
	ListNoAPI bool   `json:",omitempty"`
	// Multi: broken files of Dirty that hold several unreadable documents (file name -> number of documents)
	Multi map[string]int `json:",omitempty"`
	// CLI: the stop-on-error clause is also observed at the built binary (`list --fail` next to other options)
	CLI bool `json:",omitempty"`
}

func c13Inject(t *rapid.T, l string, docs []string, fatal bool, wls []Workload) (files []C12File, broken, conv []string, multi map[string]int) {
	multi = map[string]int{}
	docs = append([]string{}, docs...)
	ndoc := rapid.IntRange(1, 4).Draw(t, l+"ninj")
	for i := 0; i < ndoc; i++ {
		var inj string
		var copyOf []Workload
		for _, x := range wls {
			if x.Kind == "Deployment" || x.Kind == "StatefulSet" || x.Kind == "Job" {
				copyOf = append(copyOf, x)
			}
		}
		if len(copyOf) > 0 && rapid.IntRange(0, 4).Draw(t, fmt.Sprintf("%scopy%d", l, i)) == 0 {
			// a broken COPY of a resource that is really there: same kind, namespace and name, fails conversion. It must be
			// reported like any other, and must not stand in for (or hide behind) the valid one
			x := copyOf[rapid.IntRange(0, len(copyOf)-1).Draw(t, fmt.Sprintf("%scopyof%d", l, i))]
			api, field := "apps/v1", "replicas: three"
			if x.Kind == "Job" {
				api, field = "batch/v1", "parallelism: many"
			}
			inj = fmt.Sprintf("apiVersion: %s\nkind: %s\nmetadata: {name: %s, namespace: %s}\nspec:\n  %s\n  selector: {matchLabels: {app: zz}}\n  template: {metadata: {labels: {app: zz}}, spec: {containers: [{name: c, image: x}]}}\n", api, x.Kind, x.Name, x.Ns, field)
			conv = append(conv, fmt.Sprintf("kind: %s , name: %s , namespace: %s ,", x.Kind, x.Name, x.Ns))
		} else if rapid.Bool().Draw(t, fmt.Sprintf("%sconv%d", l, i)) {
			k := rapid.IntRange(0, len(convFailDocs)-1).Draw(t, fmt.Sprintf("%scf%d", l, i))
			inj = convFailDocs[k].doc
			conv = append(conv, convFailDocs[k].name)
		} else {
			inj = rapid.SampledFrom(unusedKindDocs).Draw(t, fmt.Sprintf("%suk%d", l, i))
		}
		pos := rapid.IntRange(0, len(docs)).Draw(t, fmt.Sprintf("%spos%d", l, i))
		docs = append(docs[:pos], append([]string{inj}, docs[pos:]...)...)
	}
	if fatal {
		p := NetPol{Ns: "ns1", Name: "twin", PolicyTypes: []string{"Ingress"}}
		y := docYAML((&World{NPs: []NetPol{p}}).Docs()[0])
		for k := 0; k < 2; k++ {
			pos := rapid.IntRange(0, len(docs)).Draw(t, fmt.Sprintf("%sfpos%d", l, k))
			docs = append(docs[:pos], append([]string{y}, docs[pos:]...)...)
		}
	}
	nf := rapid.IntRange(1, 3).Draw(t, l+"nfiles")
	parts := make([][]string, nf)
	for i, d := range docs {
		k := rapid.IntRange(0, nf-1).Draw(t, fmt.Sprintf("%sf%d", l, i))
		parts[k] = append(parts[k], d)
	}
	for i, f := range parts {
		if len(f) > 0 {
			files = append(files, C12File{Path: fmt.Sprintf("f%d.yaml", i), Content: strings.Join(f, "---\n")})
		}
	}
	nb := rapid.IntRange(0, 2).Draw(t, l+"nbroken")
	for i := 0; i < nb; i++ {
		name := fmt.Sprintf("broken%d%s", i, rapid.SampledFrom([]string{".yaml", ".yml", ".json"}).Draw(t, fmt.Sprintf("%sext%d", l, i)))
		sub := rapid.SampledFrom([]string{"", "sub", "sub/deeper"}).Draw(t, fmt.Sprintf("%ssub%d", l, i))
		body := rapid.SampledFrom(brokenFileBodies).Draw(t, fmt.Sprintf("%sbf%d", l, i))
		if rapid.IntRange(0, 2).Draw(t, fmt.Sprintf("%smulti%d", l, i)) == 0 {
			// one file, several unreadable documents (documents without a kind): each of them is a malformed document
			k := rapid.IntRange(2, 3).Draw(t, fmt.Sprintf("%smultik%d", l, i))
			var parts []string
			for j := 0; j < k; j++ {
				if strings.HasSuffix(name, ".json") {
					parts = append(parts, fmt.Sprintf("{\"note\":\"n%d\"}\n", j))
				} else {
					parts = append(parts, fmt.Sprintf("note: n%d\n", j))
				}
			}
			if strings.HasSuffix(name, ".json") {
				body = strings.Join(parts, "")
			} else {
				body = strings.Join(parts, "---\n")
			}
			multi[name] = k
		}
		files = append(files, C12File{Path: filepath.Join(sub, name), Content: body})
		broken = append(broken, name)
	}
	// non-manifest files
	files = append(files, C12File{Path: "README.md", Content: "# not a manifest: [\n"}, C12File{Path: "notes.txt", Content: "kind: Pod\n"})
	if rapid.Bool().Draw(t, l+"morejunk") {
		files = append(files, C12File{Path: "run.sh", Content: "#!/bin/sh\nkubectl apply -f .\n"}, C12File{Path: "Makefile", Content: "all:\n\ttrue\n"},
			C12File{Path: "blob", Content: string(rapid.SliceOfN(rapid.Byte(), 0, 40).Draw(t, l+"blob"))})
	}
	return
}

func worldDocStrings(w *World) []string {
	var docs []string
	for _, d := range w.Docs() {
		docs = append(docs, docYAML(d))
	}
	return docs
}

func genC13(t *rapid.T) *C13Case {
	w := genAnyWorld(t)
	c := &C13Case{Clean: w.YAML(), Fatal: rapid.IntRange(0, 5).Draw(t, "fatal") == 0, CLI: rapid.IntRange(0, 3).Draw(t, "cli") == 0}
	wb := editWorld(t, w)
	c.CleanB = wb.YAML()
	c.Dirty, c.Broken, c.Conv, c.Multi = c13Inject(t, "a", worldDocStrings(w), c.Fatal, w.Workloads)
	if rapid.IntRange(0, 2).Draw(t, "listjunk") == 0 {
		c.ListFile = rapid.SampledFrom([]string{"exported-list.yaml", "sub/exported-list.yml"}).Draw(t, "listfile")
		c.ListJunk = rapid.IntRange(1, 2).Draw(t, "listjunkn")
		items := []string{"- apiVersion: v1\n  kind: ConfigMap\n  metadata: {name: settings}\n  data: {k: v}\n"}
		for j := 0; j < c.ListJunk; j++ {
			items = append(items, fmt.Sprintf("- note: n%d\n  reviewer: team-%c\n", j, 'a'+j))
		}
		if len(w.Workloads) > 0 && rapid.Bool().Draw(t, "listnoapi") {
			c.ListNoAPI = true
			x := w.Workloads[rapid.IntRange(0, len(w.Workloads)-1).Draw(t, "listnoapiof")]
			lab := "{}"
			if len(x.Labels) > 0 {
				b, _ := json.Marshal(x.Labels)
				lab = string(b)
			}
			items = append(items, fmt.Sprintf("- kind: Deployment\n  metadata: {name: sneaky, namespace: %s}\n  spec:\n    selector: {matchLabels: %s}\n    template:\n      metadata: {labels: %s}\n      spec: {containers: [{name: c, image: x}]}\n", x.Ns, lab, lab))
		}
		for j := len(items) - 1; j > 0; j-- {
			k := rapid.IntRange(0, j).Draw(t, fmt.Sprintf("listperm%d", j))
			items[j], items[k] = items[k], items[j]
		}
		c.Dirty = append(c.Dirty, C12File{Path: c.ListFile, Content: "apiVersion: v1\nkind: List\nitems:\n" + strings.Join(items, "")})
	}
	if rapid.IntRange(0, 3).Draw(t, "single") == 0 {
		docs := worldDocStrings(w)
		c.SingleBad = rapid.IntRange(1, 2).Draw(t, "singlebad")
		ins := []string{"apiVersion: v1\nkind: ConfigMap\nmetadata:\n  name: settings\ndata:\n  k: v\n"}
		for j := 0; j < c.SingleBad; j++ {
			ins = append(ins, fmt.Sprintf("replicaCount: %d\nimage:\n  tag: v%d\n", j+1, j))
		}
		for j, d := range ins {
			pos := rapid.IntRange(0, len(docs)).Draw(t, fmt.Sprintf("singlepos%d", j))
			docs = append(docs[:pos], append([]string{d}, docs[pos:]...)...)
		}
		c.Single = strings.Join(docs, "---\n")
	}
	if rapid.Bool().Draw(t, "injectB") {
		c.DirtyB, c.BrokenB, c.ConvB, _ = c13Inject(t, "b", worldDocStrings(wb), false, wb.Workloads)
	} else {
		c.DirtyB = []C12File{{Path: "all.yaml", Content: c.CleanB}}
	}
	return c
}

func writeFiles(files []C12File) string {
	dir := mkScratch()
	for _, f := range files {
		writeFile(filepath.Join(dir, f.Path), []byte(f.Content))
	}
	return dir
}

func severeNamed(errs []ErrInfo, n string) bool {
	for _, e := range errs {
		if e.Severe && (strings.Contains(e.Msg, n) || strings.Contains(e.Loc, n)) {
			return true
		}
	}
	return false
}

func diffRel(d *DiffRes) string {
	var ls []string
	for _, e := range d.Ents {
		ls = append(ls, fmt.Sprintf("%+v", e))
	}
	sort.Strings(ls)
	return strings.Join(ls, "\n")
}

// fatalImpliesError: whenever Errors() holds a fatal entry the call returned an error and no result
func fatalImpliesError(what string, errs []ErrInfo, err error, n int) *VFailure {
	for _, e := range errs {
		if e.Fatal && (err == nil || n != 0) {
			return vfail("%s: Errors() holds a fatal entry (%s) but the call returned err=%v with %d entries", what, e.Msg, err, n)
		}
	}
	return nil
}

func checkC13(c *C13Case, st *VStats) *VFailure {
	clean := writeFiles([]C12File{{Path: "all.yaml", Content: c.Clean}})
	defer os.RemoveAll(clean)
	cleanB := writeFiles([]C12File{{Path: "all.yaml", Content: c.CleanB}})
	defer os.RemoveAll(cleanB)
	dirty := writeFiles(c.Dirty)
	defer os.RemoveAll(dirty)
	dirtyB := writeFiles(c.DirtyB)
	defer os.RemoveAll(dirtyB)
	base := RunList(clean, ListOpts{})
	if base.Panic != nil {
		return &VFailure{Msg: fmt.Sprintf("list panicked: %v", base.Panic), Sig: "panic"}
	}
	if base.Err != nil {
		st.Class("skip: the clean input is not analysable")
		return nil
	}
	if c.Single != "" && !c.Fatal {
		// the whole application in one file, named as the input path itself
		sd := writeFiles([]C12File{{Path: "app.yaml", Content: c.Single}})
		defer os.RemoveAll(sd)
		file := filepath.Join(sd, "app.yaml")
		got := RunList(file, ListOpts{})
		if got.Panic != nil {
			return &VFailure{Msg: fmt.Sprintf("list on a single file panicked: %v", got.Panic), Sig: "panic"}
		}
		if got.Err != nil {
			return vfail("single-file input: documents without a kind made the analysis fail: %v", got.Err)
		}
		if got.Rel() != base.Rel() {
			return vfail("single-file input: injected documents changed the computed connections\n--- clean\n%s\n--- single file with injections\n%s", base.Rel(), got.Rel())
		}
		cnt := 0
		for _, e := range got.Errs {
			if e.Severe && (strings.Contains(e.Msg, "app.yaml") || strings.Contains(e.Loc, "app.yaml")) {
				cnt++
			}
		}
		if cnt < c.SingleBad {
			return vfail("single-file input: %d documents without a kind but only %d severe entries name the file (entries: %+v)", c.SingleBad, cnt, got.Errs)
		}
		d := RunDiff(file, clean, DiffOpts{})
		if d.Panic != nil {
			return &VFailure{Msg: fmt.Sprintf("diff on a single file panicked: %v", d.Panic), Sig: "panic"}
		}
		if d.Err != nil || !d.Empty {
			return vfail("single-file input: diff against the clean input is not empty (err=%v):\n%s", d.Err, diffRel(d))
		}
		st.Class("the input path is one multi-document file")
	}
	nBad := len(c.Broken) + len(c.Conv)
	dirtyNoList := ""
	if c.ListFile != "" {
		nBad += c.ListJunk
		var rest []C12File
		for _, f := range c.Dirty {
			if f.Path != c.ListFile {
				rest = append(rest, f)
			}
		}
		dirtyNoList = writeFiles(rest)
		defer os.RemoveAll(dirtyNoList)
	}
	for _, via := range []bool{false, true} {
		what := "ConnlistFromDirPath"
		if via {
			what = "ConnlistFromResourceInfos"
		}
		got := RunList(dirty, ListOpts{ViaInfos: via})
		if c.ListFile != "" && got.Panic == nil && got.Err == nil && !c.Fatal {
			// the items of the List that are no manifests are reported: the run has more severe entries (or, through the
			// resource-info entry point, scanner errors) than the same input without that file
			ref := RunList(dirtyNoList, ListOpts{ViaInfos: via})
			nsev := func(r *ListRes) int {
				n := 0
				for _, e := range r.Errs {
					if e.Severe {
						n++
					}
				}
				if via {
					n += len(r.ScanErrs)
				}
				return n
			}
			st.Class("a List document with items that are no manifests")
			if ref.Panic == nil && ref.Err == nil && nsev(got) <= nsev(ref) {
				return vfail("%s: the file %q is a List holding %d items without a kind (and a Deployment item without apiVersion: %v), but the run reports no more severe entries (%d) than the same input without that file (%d); entries: %+v; scanner errors: %v", what, c.ListFile, c.ListJunk, c.ListNoAPI, nsev(got), nsev(ref), got.Errs, got.ScanErrs)
			}
		}
		if got.Panic != nil {
			return &VFailure{Msg: fmt.Sprintf("%s panicked on the injected input: %v", what, got.Panic), Sig: "panic"}
		}
		if f := fatalImpliesError(what, got.Errs, got.Err, len(got.Conns)); f != nil {
			return f
		}
		if c.Fatal {
			if got.Err == nil {
				return vfail("%s: a fatal conflict (duplicate NetworkPolicy name) was injected but the run succeeds", what)
			}
			if len(got.Conns) != 0 {
				return vfail("%s: an error is returned together with %d connections", what, len(got.Conns))
			}
			hasFatal := false
			for _, e := range got.Errs {
				if e.Fatal {
					hasFatal = true
				}
			}
			if !hasFatal {
				return vfail("%s fails (%v) but Errors() has no fatal entry", what, got.Err)
			}
			st.Class("fatal conflict injected")
			continue
		}
		if got.Err != nil {
			return vfail("%s: injected irrelevant/malformed documents made the analysis fail: %v", what, got.Err)
		}
		if got.Rel() != base.Rel() {
			return vfail("%s: injected documents changed the computed connections\n--- without injections\n%s\n--- with injections\n%s", what, base.Rel(), got.Rel())
		}
		for _, n := range append(append([]string{}, c.Broken...), c.Conv...) {
			ok := severeNamed(got.Errs, n)
			if via && !ok {
				// through the resource-info entry point unreadable files are reported by the scanner itself
				for _, se := range got.ScanErrs {
					if strings.Contains(se, n) {
						ok = true
					}
				}
			}
			if !ok {
				return vfail("%s: no severe entry in Errors() names the malformed item %q (entries: %+v; scanner errors: %v)", what, n, got.Errs, got.ScanErrs)
			}
		}
		// a file with k unreadable documents: each document is reported (k entries name the file)
		for _, n := range sortedKeysOf(c.Multi) {
			k, cnt := c.Multi[n], 0
			for _, e := range got.Errs {
				if e.Severe && (strings.Contains(e.Msg, n) || strings.Contains(e.Loc, n)) {
					cnt++
				}
			}
			if via {
				for _, se := range got.ScanErrs {
					if strings.Contains(se, n) {
						cnt++
					}
				}
			}
			st.Class("a file with several unreadable documents")
			if cnt < k {
				return vfail("%s: the file %q holds %d unreadable documents but only %d severe entries name it (entries: %+v; scanner errors: %v)", what, n, k, cnt, got.Errs, got.ScanErrs)
			}
		}
		// stop on first error: a severe error yields no connections
		// (through the resource-info entry point unreadable files are the scanner's errors, which the caller of the
		// scanner has to honour; the analyzer only sees conversion failures there)
		if (!via && nBad > 0) || (via && len(c.Conv) > 0) {
			so := RunList(dirty, ListOpts{ViaInfos: via, StopOnError: true})
			if so.Panic != nil {
				return &VFailure{Msg: fmt.Sprintf("%s (stop on error) panicked: %v", what, so.Panic), Sig: "panic"}
			}
			if len(so.Conns) != 0 {
				return vfail("%s with stop-on-error returned a partial report (%d connections) although %d malformed items are present", what, len(so.Conns), nBad)
			}
			if f := fatalImpliesError(what+" (stop on error)", so.Errs, so.Err, len(so.Conns)); f != nil {
				return f
			}
			// the option next to other options of the same invocation
			sx := RunList(dirty, ListOpts{ViaInfos: via, StopOnError: true, Exposure: true})
			if sx.Panic != nil {
				return &VFailure{Msg: fmt.Sprintf("%s (stop on error, exposure) panicked: %v", what, sx.Panic), Sig: "panic"}
			}
			if len(sx.Conns) != 0 || len(sx.Exposed) != 0 {
				return vfail("%s with stop-on-error and exposure analysis returned a partial report (%d connections, %d exposed peers) although %d malformed items are present", what, len(sx.Conns), len(sx.Exposed), nBad)
			}
			st.Class("stop-on-error clause checked")
		}
	}
	if c.CLI && nBad > 0 && os.Getenv("VERIF_CLI") != "" {
		for _, extra := range [][]string{{"-o", "txt"}, {"--exposure"}, {"-o", "json", "--exposure"}, {"-o", "csv"}} {
			args := append([]string{"list", "--dirpath", dirty, "--fail", "-q"}, extra...)
			so, se, code := runCLI(args...)
			st.Class("CLI invocation")
			if code < 0 || code > 1 || strings.Contains(se, "panic:") {
				return vfail("`k8snetpolicy %s` crashed (exit %d): %s", strings.Join(args, " "), code, lastLines(se, 3))
			}
			csvRows := 0
			if extra[len(extra)-1] == "csv" {
				csvRows = len(strings.Split(strings.TrimSpace(so), "\n")) - 1 // below the header
			}
			if strings.Contains(so, "=>") || strings.Contains(so, `"src"`) || csvRows > 0 {
				return vfail("`k8snetpolicy %s` (stop on first error) printed a partial report although %d malformed items are present:\n%s", strings.Join(args, " "), nBad, lastLines(so, 6))
			}
		}
	}
	if !c.Fatal {
		// diff
		ref := RunDiff(clean, cleanB, DiffOpts{})
		if ref.Panic != nil || ref.Err != nil {
			st.Class("skip: clean diff not analysable")
		} else {
			for i, pair := range [][2]string{{dirty, cleanB}, {clean, dirtyB}, {dirty, dirtyB}} {
				d := RunDiff(pair[0], pair[1], DiffOpts{})
				if d.Panic != nil {
					return &VFailure{Msg: fmt.Sprintf("diff panicked on the injected input: %v", d.Panic), Sig: "panic"}
				}
				if d.Err != nil {
					return vfail("diff: injected documents made the diff fail (variant %d): %v", i, d.Err)
				}
				if diffRel(d) != diffRel(ref) {
					return vfail("diff: injected documents changed the diff (variant %d)\n--- without\n%s\n--- with\n%s", i, diffRel(ref), diffRel(d))
				}
				var need []string
				if i != 1 {
					need = append(need, c.Broken...)
					need = append(need, c.Conv...)
				}
				if i != 0 {
					need = append(need, c.BrokenB...)
					need = append(need, c.ConvB...)
				}
				for _, n := range need {
					if !severeNamed(d.Errs, n) {
						return vfail("diff: no severe entry in Errors() names the malformed item %q (variant %d; entries %+v)", n, i, d.Errs)
					}
				}
				// an item injected into both sides is malformed twice: each occurrence has its own entry
				occ := map[string]int{}
				for _, n := range need {
					occ[n]++
				}
				for n, k := range occ {
					got := 0
					for _, e := range d.Errs {
						if e.Severe && (strings.Contains(e.Msg, n) || strings.Contains(e.Loc, n)) {
							got++
						}
					}
					if got < k {
						return vfail("diff: the malformed item %q is present %d times over the two inputs but only %d severe entries name it (variant %d; entries %+v)", n, k, got, i, d.Errs)
					}
				}
				if f := fatalImpliesError("diff", d.Errs, d.Err, len(d.Ents)); f != nil {
					return f
				}
			}
			if nBad+len(c.BrokenB)+len(c.ConvB) > 0 {
				so := RunDiff(dirty, dirtyB, DiffOpts{StopOnError: true})
				if so.Panic != nil {
					return &VFailure{Msg: fmt.Sprintf("diff (stop on error) panicked: %v", so.Panic), Sig: "panic"}
				}
				if len(so.Ents) != 0 {
					return vfail("diff with stop-on-error returned a partial report (%d entries) although malformed items are present", len(so.Ents))
				}
			}
			st.Class("diff variants checked")
		}
	}
	st.Points(1)
	if len(c.Broken) > 0 {
		st.Class("broken files")
	}
	if len(c.Conv) > 0 {
		st.Class("conversion failures")
	}
	restrict := false
	for _, cs := range base.Conns {
		if !cs.All {
			restrict = true
		}
	}
	if nBad > 0 && len(base.Conns) > 0 && restrict {
		st.NonTrivialCase(c)
	}
	return nil
}

func init() { vRegister("C13", checkC13) }

func TestC13(t *testing.T) { vRunProp(t, "C13", genC13, checkC13) }
