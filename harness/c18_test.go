package harness

import (
	"fmt"
	"os"
	"path/filepath"
	"strings"
	"testing"

	"pgregory.net/rapid"
)

// ---------- C18: CLI, directory API and resource-info API give the same answer ----------

type C18Case struct {
	A        *World
	LA       *Layout
	Extra    []C12File // junk / malformed / conflicting files added to the directory
	B        *World    // diff only
	Cmd      string    // list | diff
	Format   string
	Exposure bool
	Focus    string
	Fail     bool
	Verb     string // "" -q -v
	OutFile  bool
	// StaleOutFile: the -f file already exists (left by an earlier, longer report)
	StaleOutFile bool `json:",omitempty"`
	// SelfDiff: diff of the directory with itself: 1 = the same path twice, 2 = the second time with a trailing
	// separator, 3 = a directory that does not exist, given twice
	SelfDiff int `json:",omitempty"`
	// OddPath: the analysed directory has a name with a colon and a space in it (a legal directory name)
	OddPath bool `json:",omitempty"`
	// ViaLink: the directory is named through a symbolic link to it, written with a trailing separator ("current/")
	ViaLink bool `json:",omitempty"`
	// Hollow: (diff) one of the two directories exists but holds nothing the reader can use - 1 = empty, 2 = a README
	// only, 3 = one unreadable YAML file only; HollowFirst: it is dir1 (else dir2). The library analyses it as an empty
	// configuration (every connection of the other side is added / removed); the command must do the same.
	Hollow      int  `json:",omitempty"`
	HollowFirst bool `json:",omitempty"`
}

func genC18(t *rapid.T) *C18Case {
	c := &C18Case{Cmd: rapid.SampledFrom([]string{"list", "list", "diff"}).Draw(t, "cmd")}
	switch rapid.IntRange(0, 3).Draw(t, "worldkind") {
	case 0:
		c.A = GenWorld(t, GenCfg{Admin: true, NoNamedRisk: true})
	case 1:
		c.A = GenIngressWorld(t, true)
	case 2:
		c.A = GenExposureWorld(t)
	default:
		c.A = GenWorld(t, GenCfg{OmitNs: true}) // named-port-on-IP errors allowed here: exit status must follow
	}
	if rapid.Bool().Draw(t, "layout") {
		c.LA = GenLayout(t, "la", len(c.A.Docs()))
	}
	switch rapid.IntRange(0, 5).Draw(t, "extra") {
	case 0: // a fatal conflict: duplicate NetworkPolicy name
		p := NetPol{Ns: "ns1", Name: "twin", PolicyTypes: []string{"Ingress"}}
		y := docYAML((&World{NPs: []NetPol{p}}).Docs()[0])
		c.Extra = append(c.Extra, C12File{Path: "zz_conflict.yaml", Content: y + "---\n" + y})
	case 1: // malformed documents
		c.Extra = append(c.Extra, C12File{Path: "zz_broken.yaml", Content: brokenFileBodies[rapid.IntRange(0, len(brokenFileBodies)-1).Draw(t, "bf")]},
			C12File{Path: "README.md", Content: "# readme\n"})
	case 2: // conversion failure
		c.Extra = append(c.Extra, C12File{Path: "zz_conv.yaml", Content: convFailDocs[rapid.IntRange(0, len(convFailDocs)-1).Draw(t, "cf")].doc})
	}
	if c.Cmd == "list" {
		c.Format = rapid.SampledFrom(listFormats).Draw(t, "fmt")
		c.Exposure = rapid.IntRange(0, 2).Draw(t, "exp") == 0 && len(c.A.ANPs) == 0 && c.A.BANP == nil
		cands := []string{"", "", "", "zzz"}
		for _, wl := range c.A.Workloads {
			cands = append(cands, wl.Name, wl.Ns+"/"+wl.Name)
		}
		c.Focus = rapid.SampledFrom(cands).Draw(t, "focus")
	} else {
		c.Format = rapid.SampledFrom(diffFormats).Draw(t, "fmt")
		if rapid.Bool().Draw(t, "independent") {
			c.B = GenWorld(t, GenCfg{NoNamedRisk: true})
		} else {
			c.B = editWorld(t, c.A)
		}
		if rapid.IntRange(0, 4).Draw(t, "selfdiff") == 0 {
			c.SelfDiff = rapid.IntRange(1, 3).Draw(t, "selfdiffkind")
		} else if rapid.IntRange(0, 4).Draw(t, "hollow") == 0 {
			c.Hollow = rapid.IntRange(1, 3).Draw(t, "hollowkind")
			c.HollowFirst = rapid.Bool().Draw(t, "hollowfirst")
		}
	}
	c.OddPath = rapid.IntRange(0, 2).Draw(t, "oddpath") == 0
	c.ViaLink = rapid.IntRange(0, 3).Draw(t, "vialink") == 0
	c.Fail = rapid.IntRange(0, 3).Draw(t, "fail") == 0
	c.Verb = rapid.SampledFrom([]string{"", "-q", "-v"}).Draw(t, "verb")
	c.OutFile = rapid.Bool().Draw(t, "f")
	c.StaleOutFile = c.OutFile && rapid.Bool().Draw(t, "stalef")
	return c
}

func checkC18(c *C18Case, st *VStats) *VFailure {
	if os.Getenv("VERIF_CLI") == "" {
		return &VFailure{Msg: "VERIF_CLI is not set: the built binary is required", Sig: "harness-config"}
	}
	dir := c.A.WriteLayout(c.LA)
	if c.OddPath {
		odd := dir + "-snap:10 30"
		if err := os.Rename(dir, odd); err == nil {
			dir = odd
			st.Class("directory name with a colon and a space")
		}
	}
	defer os.RemoveAll(dir)
	for _, f := range c.Extra {
		writeFile(filepath.Join(dir, f.Path), []byte(f.Content))
	}
	if c.ViaLink {
		link := strings.TrimRight(dir, string(os.PathSeparator)) + "-current"
		if err := os.Symlink(dir, link); err == nil {
			defer os.Remove(link)
			dir = link + string(os.PathSeparator)
			st.Class("directory named through a symbolic link with a trailing separator")
		}
	}
	outDir := mkScratch()
	defer os.RemoveAll(outDir)
	outFile := filepath.Join(outDir, "out.result")
	var args []string
	var want string
	var libErr error
	if c.Cmd == "list" {
		r := RunList(dir, ListOpts{Exposure: c.Exposure, Focus: c.Focus, Format: c.Format, StopOnError: c.Fail, WantOutput: true})
		if r.Panic != nil {
			return &VFailure{Msg: fmt.Sprintf("list panicked: %v", r.Panic), Sig: "panic"}
		}
		want, libErr = r.Out, r.Err
		if libErr == nil {
			libErr = r.OutErr
		}
		args = []string{"list", "--dirpath", dir, "-o", c.Format}
		if c.Exposure {
			args = append(args, "--exposure")
		}
		if c.Focus != "" {
			args = append(args, "--focusworkload", c.Focus)
		}
		// the resource-info entry point returns the same connections as the directory entry point
		if !c.Fail {
			ri := RunList(dir, ListOpts{Exposure: c.Exposure, Focus: c.Focus, ViaInfos: true})
			if ri.Panic != nil {
				return &VFailure{Msg: fmt.Sprintf("ConnlistFromResourceInfos panicked: %v", ri.Panic), Sig: "panic"}
			}
			if (ri.Err != nil) != (r.Err != nil) {
				return vfail("ConnlistFromResourceInfos on the scanned infos returns err=%v where ConnlistFromDirPath returns err=%v", ri.Err, r.Err)
			}
			if r.Err == nil && ri.Rel() != r.Rel() {
				return vfail("ConnlistFromResourceInfos returns different connections than ConnlistFromDirPath\n--- dir path\n%s\n--- resource infos\n%s", r.Rel(), ri.Rel())
			}
		}
		if c.Fail {
			// with stop-on-error: a caller that scans the directory the ordinary way (as `eval` and the repository's
			// tests do) and gets no scanner error hands the analyzer everything the directory holds - same result
			ri := RunList(dir, ListOpts{Exposure: c.Exposure, Focus: c.Focus, ViaInfos: true, StopOnError: true, ScanAll: true})
			if ri.Panic != nil {
				return &VFailure{Msg: fmt.Sprintf("ConnlistFromResourceInfos (stop on error) panicked: %v", ri.Panic), Sig: "panic"}
			}
			if len(ri.ScanErrs) == 0 {
				st.Class("stop-on-error: directory vs resource-info entry point on a scanner-clean input")
				if (ri.Err != nil) != (r.Err != nil) {
					return vfail("stop-on-error: ConnlistFromResourceInfos on the scanned infos returns err=%v where ConnlistFromDirPath returns err=%v", ri.Err, r.Err)
				}
				if r.Err == nil && ri.Rel() != r.Rel() {
					return vfail("stop-on-error: ConnlistFromResourceInfos returns different connections than ConnlistFromDirPath on an input the scanner reads without error\n--- dir path\n%s\n--- resource infos\n%s", r.Rel(), ri.Rel())
				}
			}
		}
	} else {
		dirB := c.B.WriteDir()
		defer os.RemoveAll(dirB)
		dir1 := dir
		switch c.SelfDiff {
		case 1:
			dirB = dir
		case 2:
			dirB = dir + string(os.PathSeparator)
		case 3:
			dir1 = filepath.Join(dir, "no-such-subdir")
			dirB = dir1
		}
		if c.SelfDiff != 0 {
			st.Class("diff of a directory with itself")
		}
		if c.Hollow != 0 {
			hollow := mkScratch()
			defer os.RemoveAll(hollow)
			switch c.Hollow {
			case 2:
				writeFile(filepath.Join(hollow, "README.md"), []byte("# nothing deployed yet\n"))
			case 3:
				writeFile(filepath.Join(hollow, "draft.yaml"), []byte("replicaCount: 2\nimage:\n  tag: v1\n"))
			}
			if c.HollowFirst {
				dir1, dirB = hollow, dir
			} else {
				dirB = hollow
			}
			st.Class("diff against a directory that holds no resource")
		}
		d := RunDiff(dir1, dirB, DiffOpts{Format: c.Format, StopOnError: c.Fail, WantOutput: true})
		if d.Panic != nil {
			return &VFailure{Msg: fmt.Sprintf("diff panicked: %v", d.Panic), Sig: "panic"}
		}
		want, libErr = d.Out, d.Err
		if libErr == nil {
			libErr = d.OutErr
		}
		args = []string{"diff", "--dir1", dir1, "--dir2", dirB, "-o", c.Format}
	}
	if c.Fail {
		args = append(args, "--fail")
	}
	if c.Verb != "" {
		args = append(args, c.Verb)
	}
	if c.OutFile {
		args = append(args, "-f", outFile)
		if c.StaleOutFile {
			// the out file is reused: it still holds an earlier, much longer report
			writeFile(outFile, []byte(strings.Repeat("stale line of an earlier report => x : All Connections\n", 4000)))
			st.Class("-f file already exists")
		}
	}
	so, se, code := runCLI(args...)
	desc := "k8snetpolicy " + strings.Join(args, " ")
	st.Points(1)
	if strings.Contains(se, "panic:") {
		return vfail("`%s` panicked: %s", desc, lastLines(se, 5))
	}
	if (libErr != nil) != (code != 0) {
		return vfail("`%s` exits with status %d but the library call returns err=%v (stderr: %s)", desc, code, libErr, lastLines(se, 3))
	}
	if libErr == nil {
		if so != want {
			return vfail("`%s`: stdout differs from the string the library returns for the same options: %s", desc, firstDiff(want, so))
		}
		if c.OutFile {
			b, err := os.ReadFile(outFile)
			if want == "" && c.Cmd == "diff" && (err != nil || c.StaleOutFile) {
				// nothing to write for an empty diff (the statement does not say whether an existing file is emptied)
			} else if err != nil || string(b) != so {
				return vfail("`%s`: the -f file differs from stdout (read error %v): %s", desc, err, firstDiff(so, string(b)))
			}
		}
	} else {
		st.Class("library returns an error (exit status non-zero)")
		if so != "" && strings.TrimSpace(so) != "" && !strings.Contains(so, "Usage") {
			// a failing command prints no report on stdout
			if p, err := ParseList(c.Format, so); c.Cmd == "list" && err == nil && len(p.Conns) > 0 {
				return vfail("`%s` fails (exit %d) but prints a report on stdout: %q", desc, code, so)
			}
		}
	}
	st.Class("cmd " + c.Cmd)
	nondefault := c.Format != "txt" || c.Exposure || c.Focus != "" || c.Fail || c.Verb != "" || c.OutFile
	if want != "" && nondefault {
		st.NonTrivialCase(c)
	}
	return nil
}

func init() { vRegister("C18", checkC18) }

func TestC18(t *testing.T) { vRunProp(t, "C18", genC18, checkC18) }
