package harness

import (
	"fmt"
	"os"
	"sort"
	"strings"
	"testing"

	"pgregory.net/rapid"
)

// compareReports compares two reports pointwise over workloads of wa and representative addresses/ports built
// from both worlds and both reports. rel: "eq", "sup" (b ⊇ a), "sub" (b ⊆ a); filter decides which pairs count.
func compareReports(wa, wb *World, ra, rb *ListRes, rel string, filter func(s, d *Workload) bool, st *VStats) *VFailure {
	var extra []uint64
	for _, r := range append(append([]IPR{}, ra.IPs...), rb.IPs...) {
		extra = append(extra, r.Lo, r.Hi)
	}
	addrs := (&World{NPs: append(append([]NetPol{}, wa.NPs...), wb.NPs...)}).addrConstants(extra)
	pm := map[int]bool{}
	for _, w := range []*World{wa, wb} {
		for _, p := range w.portConstants() {
			pm[p] = true
		}
	}
	for _, r := range []*ListRes{ra, rb} {
		for _, cs := range r.Conns {
			for _, x := range cs.Breakpoints() {
				for _, v := range []int{x - 1, x, x + 1} {
					if v >= 1 && v <= 65535 {
						pm[v] = true
					}
				}
			}
		}
	}
	var ports []int
	for p := range pm {
		ports = append(ports, p)
	}
	sort.Ints(ports)
	n := 0
	var fail *VFailure
	chk := func(ka, kb string) {
		if fail != nil {
			return
		}
		ca, cb := ra.Conns[ka], rb.Conns[kb]
		for _, proto := range protos {
			for _, port := range ports {
				a, b := ca.Has(proto, port), cb.Has(proto, port)
				bad := false
				switch rel {
				case "eq":
					bad = a != b
				case "sup":
					bad = a && !b
				case "sub":
					bad = b && !a
				}
				n++
				if bad {
					fail = vfail("relation %q violated at %s %s/%d: before=%v after=%v (before: %s; after: %s)", rel, ka, proto, port, a, b, ca.Str(), cb.Str())
					return
				}
			}
		}
	}
	for i := range wa.Workloads {
		s := &wa.Workloads[i]
		for j := range wa.Workloads {
			d := &wa.Workloads[j]
			if i != j && filter(s, d) {
				chk(peerKey(s.PeerString(), d.PeerString()), peerKey(s.PeerString(), d.PeerString()))
			}
		}
		for _, a := range addrs {
			if filter(s, nil) {
				chk(peerKey(s.PeerString(), ra.IPPeerOf(a)), peerKey(s.PeerString(), rb.IPPeerOf(a)))
			}
			if filter(nil, s) {
				chk(peerKey(ra.IPPeerOf(a), s.PeerString()), peerKey(rb.IPPeerOf(a), s.PeerString()))
			}
		}
	}
	st.Points(n)
	return fail
}

// ---------- C14 ----------

type C14Case struct {
	A, B *World
	Kind string // which edit produced B from A
	Rel  string // eq sup sub
	// Local: compare only pairs whose source the added policy (the last policy of B) does not select for egress and
	// whose destination it does not select for ingress
	Local bool
	// Exposure: both reports are computed with exposure analysis on (it must leave the connectivity untouched, and
	// the relations hold for it just the same)
	Exposure bool `json:",omitempty"`
}

var c14Kinds = []string{"addrule", "addpol_governed", "addpol_governed_ref", "addpol_ungoverned", "local", "ml2in", "splitrange", "splitcidr", "splitpolicy", "explicit_pt", "default_pt"}

func effDirs(p *NetPol) []string {
	var pt []string
	for _, d := range []string{"Ingress", "Egress"} {
		if dirAffected(p, d) {
			pt = append(pt, d)
		}
	}
	return pt
}

// insertRule: the added rule goes to a drawn position among the existing ones (rules are a union: the position means nothing)
func insertRule(rs []Rule, r Rule, pos int) []Rule {
	out := append([]Rule{}, rs[:pos]...)
	out = append(out, r)
	return append(out, rs[pos:]...)
}

func genC14(t *rapid.T) *C14Case {
	wa := GenWorld(t, GenCfg{NoNamedRisk: true})
	wb := wa.Clone()
	c := &C14Case{A: wa, B: wb, Rel: "eq", Exposure: rapid.IntRange(0, 3).Draw(t, "c14exposure") == 0}
	kind := rapid.SampledFrom(c14Kinds).Draw(t, "edit")
	cfg := &GenCfg{NoNamedRisk: true}
	applied := false
	newPol := func(ns string, sel Selector, pts []string) NetPol {
		np := NetPol{Ns: ns, Name: "added", PodSel: sel, PolicyTypes: pts}
		has := func(d string) bool {
			for _, x := range pts {
				if x == d {
					return true
				}
			}
			return false
		}
		if has("Ingress") && rapid.Bool().Draw(t, "hasin") {
			np.Ingress = []Rule{genRule(t, "ain", false, cfg)}
		}
		if has("Egress") && rapid.Bool().Draw(t, "haseg") {
			np.Egress = []Rule{genRule(t, "aeg", true, cfg)}
		}
		return np
	}
	switch kind {
	case "addrule":
		if len(wb.NPs) == 0 {
			break
		}
		p := &wb.NPs[rapid.IntRange(0, len(wb.NPs)-1).Draw(t, "k")]
		// only in a direction the policy already governs *effectively* (DESIGN C14(a))
		if dirAffected(p, "Ingress") && (rapid.Bool().Draw(t, "ing") || !dirAffected(p, "Egress")) {
			p.Ingress = insertRule(p.Ingress, genRule(t, "newin", false, cfg), rapid.IntRange(0, len(p.Ingress)).Draw(t, "newinpos"))
			applied = true
		} else if dirAffected(p, "Egress") {
			p.Egress = insertRule(p.Egress, genRule(t, "neweg", true, cfg), rapid.IntRange(0, len(p.Egress)).Draw(t, "newegpos"))
			applied = true
		}
		c.Rel = "sup"
	case "addpol_governed":
		if len(wb.NPs) == 0 {
			break
		}
		old := wb.NPs[rapid.IntRange(0, len(wb.NPs)-1).Draw(t, "k")]
		wb.NPs = append(wb.NPs, newPol(old.Ns, old.PodSel, effDirs(&old)))
		c.Rel = "sup"
		applied = true
	case "addpol_governed_ref", "addpol_ungoverned":
		// draw namespace and selector, then *construct* the policyTypes from the reference model so that the
		// precondition holds (no rejection)
		ns := wa.Namespaces[rapid.IntRange(0, len(wa.Namespaces)-1).Draw(t, "ns")].Name
		sel := *genSelector(t, "asel", false, nil)
		probe := NetPol{Ns: ns, PodSel: sel, PolicyTypes: []string{"Ingress", "Egress"}}
		var pts []string
		for _, d := range []string{"Ingress", "Egress"} {
			allGov, allUngov := true, true
			for i := range wa.Workloads {
				x := &wa.Workloads[i]
				if !wa.npGoverns(&probe, x, d) {
					continue
				}
				g := false
				for k := range wa.NPs {
					if wa.npGoverns(&wa.NPs[k], x, d) {
						g = true
					}
				}
				if g {
					allUngov = false
				} else {
					allGov = false
				}
			}
			if kind == "addpol_governed_ref" && allGov || kind == "addpol_ungoverned" && allUngov {
				pts = append(pts, d)
			}
		}
		if len(pts) == 0 {
			break
		}
		wb.NPs = append(wb.NPs, newPol(ns, sel, pts))
		c.Rel = "sup"
		if kind == "addpol_ungoverned" {
			c.Rel = "sub"
		}
		applied = true
	case "ml2in":
		conv := func(s *Selector) {
			if s == nil || len(s.MatchLabels) == 0 {
				return
			}
			keys := sortedKeysS(s.MatchLabels)
			k := keys[0]
			s2 := Selector{MatchLabels: map[string]string{}, Exprs: append([]Expr{}, s.Exprs...)}
			for kk, v := range s.MatchLabels {
				if kk != k {
					s2.MatchLabels[kk] = v
				}
			}
			s2.Exprs = append(s2.Exprs, Expr{Key: k, Op: "In", Values: []string{s.MatchLabels[k]}})
			*s = s2
			applied = true
		}
		for i := range wb.NPs {
			conv(&wb.NPs[i].PodSel)
			for _, rs := range [][]Rule{wb.NPs[i].Ingress, wb.NPs[i].Egress} {
				for ri := range rs {
					for pi := range rs[ri].Peers {
						conv(rs[ri].Peers[pi].PodSel)
						conv(rs[ri].Peers[pi].NsSel)
					}
				}
			}
		}
	case "splitrange":
		for i := range wb.NPs {
			for _, rs := range [][]Rule{wb.NPs[i].Ingress, wb.NPs[i].Egress} {
				for ri := range rs {
					var out []PPort
					for _, pp := range rs[ri].Ports {
						if pp.PortNum != 0 && pp.EndPort > pp.PortNum {
							mid := pp.PortNum + (pp.EndPort-pp.PortNum)/2
							a, b := pp, pp
							a.EndPort = mid
							b.PortNum = mid + 1
							out = append(out, b, a)
							applied = true
						} else {
							out = append(out, pp)
						}
					}
					rs[ri].Ports = out
				}
			}
		}
	case "splitcidr":
		for i := range wb.NPs {
			for _, rs := range [][]Rule{wb.NPs[i].Ingress, wb.NPs[i].Egress} {
				for ri := range rs {
					var out []Peer
					for _, pe := range rs[ri].Peers {
						if pe.IPBlock != nil && !strings.HasSuffix(pe.IPBlock.CIDR, "/32") {
							out = append(out, splitCIDRPeer(pe.IPBlock)...)
							applied = true
						} else {
							out = append(out, pe)
						}
					}
					if rs[ri].Peers != nil {
						rs[ri].Peers = out
					}
				}
			}
		}
	case "splitpolicy":
		if len(wb.NPs) == 0 {
			break
		}
		k := rapid.IntRange(0, len(wb.NPs)-1).Draw(t, "k")
		p := wb.NPs[k]
		if len(p.Ingress)+len(p.Egress) < 2 {
			break
		}
		pt := effDirs(&p)
		p1, p2 := p, p
		p1.PolicyTypes, p2.PolicyTypes = pt, pt
		p2.Name = p.Name + "-part2"
		ci := rapid.IntRange(0, len(p.Ingress)).Draw(t, "ci")
		ce := rapid.IntRange(0, len(p.Egress)).Draw(t, "ce")
		p1.Ingress, p2.Ingress = p.Ingress[:ci], p.Ingress[ci:]
		p1.Egress, p2.Egress = p.Egress[:ce], p.Egress[ce:]
		wb.NPs[k] = p1
		wb.NPs = append(wb.NPs, p2)
		applied = true
	case "explicit_pt":
		for i := range wb.NPs {
			if wb.NPs[i].PolicyTypes == nil {
				wb.NPs[i].PolicyTypes = effDirs(&wa.NPs[i])
				applied = true
			}
		}
	case "default_pt":
		// explicit -> defaulted form, when they coincide
		for i := range wb.NPs {
			p := &wb.NPs[i]
			if p.PolicyTypes != nil {
				q := *p
				q.PolicyTypes = nil
				if fmt.Sprint(effDirs(&q)) == fmt.Sprint(effDirs(p)) {
					p.PolicyTypes = nil
					applied = true
				}
			}
		}
	}
	if !applied {
		// always applicable: locality of an added policy (d)
		kind = "local"
		ns := wa.Namespaces[rapid.IntRange(0, len(wa.Namespaces)-1).Draw(t, "lns")].Name
		pts := rapid.SampledFrom([][]string{{"Ingress"}, {"Egress"}, {"Ingress", "Egress"}}).Draw(t, "lpt")
		wb.NPs = append(wb.NPs, newPol(ns, *genSelector(t, "lsel", false, nil), pts))
		c.Rel = "eq"
		c.Local = true
	}
	c.Kind = kind
	return c
}

func fmtCIDR(base uint64, n int) string {
	return fmt.Sprintf("%d.%d.%d.%d/%d", base>>24, (base>>16)&255, (base>>8)&255, base&255, n)
}

// splitCIDRPeer rewrites a block as its two halves, distributing the excepts. An except that covers a whole half
// removes that half (an except must be a strict sub-block of its cidr).
func splitCIDRPeer(b *IPBlock) []Peer {
	lo, hi := parseCIDR(b.CIDR)
	var n int
	fmt.Sscanf(b.CIDR[strings.Index(b.CIDR, "/")+1:], "%d", &n)
	half := (hi - lo + 1) / 2
	var out []Peer
	for _, base := range []uint64{lo, lo + half} {
		nb := &IPBlock{CIDR: fmtCIDR(base, n+1)}
		blo, bhi := base, base+half-1
		dropped := false
		for _, e := range b.Except {
			elo, ehi := parseCIDR(e)
			if elo <= blo && ehi >= bhi {
				dropped = true
			} else if elo >= blo && ehi <= bhi {
				nb.Except = append(nb.Except, e)
			}
		}
		if !dropped {
			out = append(out, Peer{IPBlock: nb})
		}
	}
	if len(out) == 0 {
		// both halves removed by excepts: keep an equivalent block that selects nothing new
		return []Peer{{IPBlock: b}}
	}
	return out
}

func checkC14(c *C14Case, st *VStats) *VFailure {
	da, db := c.A.WriteDir(), c.B.WriteDir()
	defer os.RemoveAll(da)
	defer os.RemoveAll(db)
	ra, rb := RunList(da, ListOpts{Exposure: c.Exposure}), RunList(db, ListOpts{Exposure: c.Exposure})
	if ra.Panic != nil || rb.Panic != nil {
		return &VFailure{Msg: fmt.Sprintf("list panicked: %v %v", ra.Panic, rb.Panic), Sig: "panic"}
	}
	if ra.Err != nil || rb.Err != nil {
		st.Class("skip: a run returned an error")
		return nil
	}
	st.Class("edit " + c.Kind)
	filter := func(s, d *Workload) bool { return true }
	var edited *NetPol
	if len(c.B.NPs) > 0 {
		edited = &c.B.NPs[len(c.B.NPs)-1]
	}
	if c.Local {
		np := edited
		filter = func(s, d *Workload) bool {
			return !(s != nil && c.B.npGoverns(np, s, "Egress")) && !(d != nil && c.B.npGoverns(np, d, "Ingress"))
		}
	}
	if f := compareReports(c.A, c.B, ra, rb, c.Rel, filter, st); f != nil {
		f.Msg = fmt.Sprintf("edit %q: %s", c.Kind, f.Msg)
		return f
	}
	// non-trivial: some policy of B governs a workload and the YAML changed
	if c.A.YAML() != c.B.YAML() && c.B.anyGoverned() {
		st.NonTrivialCase(c)
	}
	return nil
}

func init() { vRegister("C14", checkC14) }

func TestC14(t *testing.T) { vRunProp(t, "C14", genC14, checkC14) }
