package harness

import (
	"encoding/json"
	"fmt"
	"os"
	"path/filepath"
	"strings"

	ocroutev1 "github.com/openshift/api/route/v1"
	appsv1 "k8s.io/api/apps/v1"
	batchv1 "k8s.io/api/batch/v1"
	corev1 "k8s.io/api/core/v1"
	netv1 "k8s.io/api/networking/v1"
	metav1 "k8s.io/apimachinery/pkg/apis/meta/v1"
	"k8s.io/apimachinery/pkg/util/intstr"
	apisv1a "sigs.k8s.io/network-policy-api/apis/v1alpha1"
	"sigs.k8s.io/yaml"
)

func kSel(s *Selector) *metav1.LabelSelector {
	if s == nil {
		return nil
	}
	ls := &metav1.LabelSelector{}
	if len(s.MatchLabels) > 0 {
		ls.MatchLabels = s.MatchLabels
	}
	for _, e := range s.Exprs {
		ls.MatchExpressions = append(ls.MatchExpressions, metav1.LabelSelectorRequirement{Key: e.Key, Operator: metav1.LabelSelectorOperator(e.Op), Values: e.Values})
	}
	return ls
}
func podSpec(wl *Workload) corev1.PodSpec {
	n := 1
	if wl.SplitContainers {
		n = 2
	}
	if wl.NCont > 0 {
		n = wl.NCont
	}
	cs := make([]corev1.Container, n)
	for i := range cs {
		cs[i] = corev1.Container{Name: fmt.Sprintf("c%d", i), Image: "img"}
	}
	cs[0].Name = "c"
	if n > 1 {
		cs[1].Name = "sidecar"
	}
	for i, p := range wl.Ports {
		cp := corev1.ContainerPort{Name: p.Name, ContainerPort: int32(p.Number), Protocol: corev1.Protocol(p.Proto)}
		cs[i%n].Ports = append(cs[i%n].Ports, cp)
	}
	ps := corev1.PodSpec{Containers: cs}
	h := corev1.Container{Name: "helper", Image: "img3"}
	switch wl.Helper {
	case 1:
		ps.Containers = append([]corev1.Container{h}, ps.Containers...)
	case 2:
		ps.Containers = append(ps.Containers, h)
	case 3:
		ps.InitContainers = []corev1.Container{h}
	}
	return ps
}

func ownerAPI(wl *Workload, i int) string {
	if wl.MixedOwnerAPI && i%2 == 1 {
		return "apps/v1beta2"
	}
	return "apps/v1"
}

// ownedPodName: bare pods of a controller carry a suffix that is unique in the cluster (as the real, random ones are):
// same-named workloads of two namespaces do not get same-named pods this way, while synthesised replicas (name-1) do.
func ownedPodName(wl *Workload, i int) string {
	return fmt.Sprintf("%s-%sx%dz", wl.Name, wl.Ns, i)
}

// omitNs: the rendered namespace of a document - empty when the world says this document is written without
// metadata.namespace (only for objects of "default", where the omission means the same).
func (w *World) omitNs(kind, name, ns string) string {
	if ns == "default" && w.OmitNs[kind+"/"+name] {
		return ""
	}
	return ns
}

// Doc is one rendered manifest document.
type Doc struct {
	Kind string
	Key  string // kind/ns/name, for reports
	Obj  interface{}
}

func (d Doc) YAML() []byte {
	b, err := yaml.Marshal(d.Obj)
	if err != nil {
		panic(err)
	}
	return b
}

func (d Doc) JSON() []byte {
	b, err := json.Marshal(d.Obj)
	if err != nil {
		panic(err)
	}
	return b
}

func nsObjLabels(n *Ns) map[string]string {
	if !n.ExplicitNameLabel {
		return n.Labels
	}
	m := copyMapS(n.Labels)
	m[nsNameKey] = n.Name
	return m
}

func copyMapS(m map[string]string) map[string]string {
	r := map[string]string{}
	for k, v := range m {
		r[k] = v
	}
	return r
}

func workloadDocs(w *World, wl *Workload) []Doc {
	var docs []Doc
	ns := wl.Ns
	if w.OmitNs["wl/"+wl.Name] && ns == "default" {
		ns = ""
	}
	om := metav1.ObjectMeta{Name: wl.Name, Namespace: ns}
	if wl.Kind != "Pod" && !isOwned(wl.Kind) && len(wl.ObjLabels) > 0 {
		om.Labels = wl.ObjLabels
	}
	if wl.Kind != "Pod" && !isOwned(wl.Kind) && wl.ExportedOwner {
		// the controller object as `kubectl get rs,job -o yaml` prints it: with a controller ownerReference to ITS owner
		// (a Deployment, a CronJob, a custom kind) which is not part of the input - the object is the workload all the same
		yes := true
		ok, oapi := "Deployment", "apps/v1"
		switch wl.Kind {
		case "Job":
			ok, oapi = "CronJob", "batch/v1"
		case "StatefulSet", "DaemonSet", "Deployment", "CronJob", "ReplicationController":
			ok, oapi = "Rollout", "argoproj.io/v1alpha1"
		}
		om.OwnerReferences = []metav1.OwnerReference{{APIVersion: oapi, Kind: ok, Name: wl.Name + "-parent", UID: "0000-parent", Controller: &yes, BlockOwnerDeletion: &yes}}
	}
	tmpl := corev1.PodTemplateSpec{ObjectMeta: metav1.ObjectMeta{Labels: wl.Labels}, Spec: podSpec(wl)}
	var reps *int32
	if wl.Replicas >= 0 {
		r := int32(wl.Replicas)
		reps = &r
	}
	sel := &metav1.LabelSelector{MatchLabels: wl.Labels}
	add := func(kind string, o interface{}) {
		docs = append(docs, Doc{Kind: kind, Key: kind + "/" + wl.Ns + "/" + wl.Name, Obj: o})
	}
	status := corev1.PodStatus{HostIP: "192.168.49.2", PodIPs: []corev1.PodIP{{IP: "10.244.0.7"}}}
	switch {
	case wl.Kind == "Pod":
		om.Labels = wl.Labels
		add("Pod", &corev1.Pod{TypeMeta: metav1.TypeMeta{APIVersion: "v1", Kind: "Pod"}, ObjectMeta: om, Spec: podSpec(wl), Status: status})
	case isOwned(wl.Kind):
		n := wl.Replicas
		if n < 1 {
			n = 1
		}
		ctl := true
		okind := ownedKind(wl.Kind)
		for i := 0; i < n; i++ {
			pm := metav1.ObjectMeta{Name: ownedPodName(wl, i), Namespace: ns, Labels: wl.Labels,
				OwnerReferences: []metav1.OwnerReference{{APIVersion: ownerAPI(wl, i), Kind: okind, Name: wl.Name, UID: "u", Controller: &ctl}}}
			if strings.HasPrefix(wl.Kind, "Owned2:") {
				// a non-controller reference (e.g. a scheduler's pod group) listed before the controller one
				pm.OwnerReferences = append([]metav1.OwnerReference{{APIVersion: "scheduling.x-k8s.io/v1alpha1", Kind: "PodGroup", Name: "pg-" + wl.Name, UID: "u0"}}, pm.OwnerReferences...)
			}
			docs = append(docs, Doc{Kind: "Pod", Key: "Pod/" + wl.Ns + "/" + pm.Name, Obj: &corev1.Pod{TypeMeta: metav1.TypeMeta{APIVersion: "v1", Kind: "Pod"}, ObjectMeta: pm, Spec: podSpec(wl), Status: status}})
		}
	case wl.Kind == "Deployment":
		add(wl.Kind, &appsv1.Deployment{TypeMeta: metav1.TypeMeta{APIVersion: "apps/v1", Kind: "Deployment"}, ObjectMeta: om, Spec: appsv1.DeploymentSpec{Replicas: reps, Selector: sel, Template: tmpl}})
	case wl.Kind == "ReplicaSet":
		add(wl.Kind, &appsv1.ReplicaSet{TypeMeta: metav1.TypeMeta{APIVersion: "apps/v1", Kind: "ReplicaSet"}, ObjectMeta: om, Spec: appsv1.ReplicaSetSpec{Replicas: reps, Selector: sel, Template: tmpl}})
	case wl.Kind == "StatefulSet":
		add(wl.Kind, &appsv1.StatefulSet{TypeMeta: metav1.TypeMeta{APIVersion: "apps/v1", Kind: "StatefulSet"}, ObjectMeta: om, Spec: appsv1.StatefulSetSpec{Replicas: reps, Selector: sel, Template: tmpl}})
	case wl.Kind == "DaemonSet":
		add(wl.Kind, &appsv1.DaemonSet{TypeMeta: metav1.TypeMeta{APIVersion: "apps/v1", Kind: "DaemonSet"}, ObjectMeta: om, Spec: appsv1.DaemonSetSpec{Selector: sel, Template: tmpl}})
	case wl.Kind == "ReplicationController":
		add(wl.Kind, &corev1.ReplicationController{TypeMeta: metav1.TypeMeta{APIVersion: "v1", Kind: "ReplicationController"}, ObjectMeta: om, Spec: corev1.ReplicationControllerSpec{Replicas: reps, Selector: wl.Labels, Template: &tmpl}})
	case wl.Kind == "Job":
		add(wl.Kind, &batchv1.Job{TypeMeta: metav1.TypeMeta{APIVersion: "batch/v1", Kind: "Job"}, ObjectMeta: om, Spec: batchv1.JobSpec{Parallelism: reps, Template: tmpl}})
	case wl.Kind == "CronJob":
		add(wl.Kind, &batchv1.CronJob{TypeMeta: metav1.TypeMeta{APIVersion: "batch/v1", Kind: "CronJob"}, ObjectMeta: om, Spec: batchv1.CronJobSpec{Schedule: "* * * * *", JobTemplate: batchv1.JobTemplateSpec{Spec: batchv1.JobSpec{Template: tmpl}}}})
	default:
		panic("unknown workload kind " + wl.Kind)
	}
	return docs
}

// Docs renders the world to typed k8s objects (marshalled with sigs.k8s.io/yaml; never hand-written YAML).
func (w *World) Docs() []Doc {
	var docs []Doc
	for _, n := range w.Namespaces {
		if n.HasObject {
			docs = append(docs, Doc{Kind: "Namespace", Key: "Namespace//" + n.Name, Obj: &corev1.Namespace{TypeMeta: metav1.TypeMeta{APIVersion: "v1", Kind: "Namespace"}, ObjectMeta: metav1.ObjectMeta{Name: n.Name, Labels: nsObjLabels(&n)}}})
		}
	}
	for i := range w.Workloads {
		docs = append(docs, workloadDocs(w, &w.Workloads[i])...)
	}
	for i := range w.NPs {
		p := &w.NPs[i]
		np := &netv1.NetworkPolicy{TypeMeta: metav1.TypeMeta{APIVersion: "networking.k8s.io/v1", Kind: "NetworkPolicy"}, ObjectMeta: metav1.ObjectMeta{Name: p.Name, Namespace: p.Ns}}
		if w.OmitNs["np/"+p.Name] && p.Ns == "default" {
			np.Namespace = ""
		}
		np.Spec.PodSelector = *kSel(&p.PodSel)
		for _, d := range p.PolicyTypes {
			np.Spec.PolicyTypes = append(np.Spec.PolicyTypes, netv1.PolicyType(d))
		}
		conv := func(r *Rule) ([]netv1.NetworkPolicyPeer, []netv1.NetworkPolicyPort) {
			var peers []netv1.NetworkPolicyPeer
			if r.Peers != nil {
				peers = []netv1.NetworkPolicyPeer{}
			}
			for _, pe := range r.Peers {
				kp := netv1.NetworkPolicyPeer{PodSelector: kSel(pe.PodSel), NamespaceSelector: kSel(pe.NsSel)}
				if pe.IPBlock != nil {
					kp.IPBlock = &netv1.IPBlock{CIDR: pe.IPBlock.CIDR, Except: pe.IPBlock.Except}
				}
				peers = append(peers, kp)
			}
			var ports []netv1.NetworkPolicyPort
			for _, pp := range r.Ports {
				kp := netv1.NetworkPolicyPort{}
				if pp.Proto != "" {
					pr := corev1.Protocol(pp.Proto)
					kp.Protocol = &pr
				}
				if pp.PortNum != 0 {
					v := intstr.FromInt32(int32(pp.PortNum))
					kp.Port = &v
				} else if pp.PortNam != "" {
					v := intstr.FromString(pp.PortNam)
					kp.Port = &v
				}
				if pp.EndPort != 0 {
					e := int32(pp.EndPort)
					kp.EndPort = &e
				}
				ports = append(ports, kp)
			}
			return peers, ports
		}
		for ri := range p.Ingress {
			peers, ports := conv(&p.Ingress[ri])
			np.Spec.Ingress = append(np.Spec.Ingress, netv1.NetworkPolicyIngressRule{From: peers, Ports: ports})
		}
		for ri := range p.Egress {
			peers, ports := conv(&p.Egress[ri])
			np.Spec.Egress = append(np.Spec.Egress, netv1.NetworkPolicyEgressRule{To: peers, Ports: ports})
		}
		var npObj interface{} = np
		if (p.EmptyIngress && len(p.Ingress) == 0) || (p.EmptyEgress && len(p.Egress) == 0) {
			// the typed object omits empty lists: write the explicit empty list through a generic tree
			b, err := json.Marshal(np)
			if err != nil {
				panic(err)
			}
			var m map[string]interface{}
			if err := json.Unmarshal(b, &m); err != nil {
				panic(err)
			}
			spec := m["spec"].(map[string]interface{})
			if p.EmptyIngress && len(p.Ingress) == 0 {
				spec["ingress"] = []interface{}{}
			}
			if p.EmptyEgress && len(p.Egress) == 0 {
				spec["egress"] = []interface{}{}
			}
			npObj = m
		}
		docs = append(docs, Doc{Kind: "NetworkPolicy", Key: "NetworkPolicy/" + p.Ns + "/" + p.Name, Obj: npObj})
	}
	aports := func(r *ARule) *[]apisv1a.AdminNetworkPolicyPort {
		if !r.HasPorts {
			return nil
		}
		res := []apisv1a.AdminNetworkPolicyPort{}
		for _, ap := range r.Ports {
			switch ap.Kind {
			case "number":
				// Proto "" = the field is omitted (the API defaults it to TCP)
				res = append(res, apisv1a.AdminNetworkPolicyPort{PortNumber: &apisv1a.Port{Protocol: corev1.Protocol(ap.Proto), Port: int32(ap.Port)}})
			case "range":
				res = append(res, apisv1a.AdminNetworkPolicyPort{PortRange: &apisv1a.PortRange{Protocol: corev1.Protocol(ap.Proto), Start: int32(ap.Port), End: int32(ap.End)}})
			case "named":
				n := ap.Name
				res = append(res, apisv1a.AdminNetworkPolicyPort{NamedPort: &n})
			}
		}
		return &res
	}
	nsPod := func(p *APeer) *apisv1a.NamespacedPod {
		if p.PodsNs == nil {
			return nil
		}
		return &apisv1a.NamespacedPod{NamespaceSelector: *kSel(p.PodsNs), PodSelector: *kSel(p.PodsPod)}
	}
	ing := func(rs []ARule) (res []apisv1a.AdminNetworkPolicyIngressRule) {
		for ri := range rs {
			r := &rs[ri]
			kr := apisv1a.AdminNetworkPolicyIngressRule{Name: r.Name, Action: apisv1a.AdminNetworkPolicyRuleAction(r.Action), Ports: aports(r)}
			for pi := range r.Peers {
				kr.From = append(kr.From, apisv1a.AdminNetworkPolicyIngressPeer{Namespaces: kSel(r.Peers[pi].Namespaces), Pods: nsPod(&r.Peers[pi])})
			}
			res = append(res, kr)
		}
		return
	}
	eg := func(rs []ARule) (res []apisv1a.AdminNetworkPolicyEgressRule) {
		for ri := range rs {
			r := &rs[ri]
			kr := apisv1a.AdminNetworkPolicyEgressRule{Name: r.Name, Action: apisv1a.AdminNetworkPolicyRuleAction(r.Action), Ports: aports(r)}
			for pi := range r.Peers {
				kr.To = append(kr.To, apisv1a.AdminNetworkPolicyEgressPeer{Namespaces: kSel(r.Peers[pi].Namespaces), Pods: nsPod(&r.Peers[pi])})
			}
			res = append(res, kr)
		}
		return
	}
	for i := range w.ANPs {
		a := &w.ANPs[i]
		k := &apisv1a.AdminNetworkPolicy{TypeMeta: metav1.TypeMeta{APIVersion: "policy.networking.k8s.io/v1alpha1", Kind: "AdminNetworkPolicy"}, ObjectMeta: metav1.ObjectMeta{Name: a.Name}}
		k.Spec.Priority = int32(a.Priority)
		k.Spec.Subject = apisv1a.AdminNetworkPolicySubject{Namespaces: kSel(a.Subject.Namespaces), Pods: nsPod(&a.Subject)}
		k.Spec.Ingress = ing(a.Ingress)
		k.Spec.Egress = eg(a.Egress)
		docs = append(docs, Doc{Kind: "AdminNetworkPolicy", Key: "AdminNetworkPolicy//" + a.Name, Obj: k})
	}
	if w.BANP != nil {
		a := w.BANP
		k := &apisv1a.BaselineAdminNetworkPolicy{TypeMeta: metav1.TypeMeta{APIVersion: "policy.networking.k8s.io/v1alpha1", Kind: "BaselineAdminNetworkPolicy"}, ObjectMeta: metav1.ObjectMeta{Name: "default"}}
		k.Spec.Subject = apisv1a.AdminNetworkPolicySubject{Namespaces: kSel(a.Subject.Namespaces), Pods: nsPod(&a.Subject)}
		for _, r := range ing(a.Ingress) {
			k.Spec.Ingress = append(k.Spec.Ingress, apisv1a.BaselineAdminNetworkPolicyIngressRule{Name: r.Name, Action: apisv1a.BaselineAdminNetworkPolicyRuleAction(r.Action), From: r.From, Ports: r.Ports})
		}
		for _, r := range eg(a.Egress) {
			k.Spec.Egress = append(k.Spec.Egress, apisv1a.BaselineAdminNetworkPolicyEgressRule{Name: r.Name, Action: apisv1a.BaselineAdminNetworkPolicyRuleAction(r.Action), To: r.To, Ports: r.Ports})
		}
		docs = append(docs, Doc{Kind: "BaselineAdminNetworkPolicy", Key: "BaselineAdminNetworkPolicy//default", Obj: k})
	}
	docs = append(docs, w.ingressDocs()...)
	return docs
}

func (w *World) ingressDocs() []Doc {
	var docs []Doc
	for _, sv := range w.Services {
		k := &corev1.Service{TypeMeta: metav1.TypeMeta{APIVersion: "v1", Kind: "Service"}, ObjectMeta: metav1.ObjectMeta{Name: sv.Name, Namespace: w.omitNs("svc", sv.Name, sv.Ns)}}
		k.Spec.Selector = sv.Selector
		for _, p := range sv.Ports {
			sp := corev1.ServicePort{Name: p.Name, Port: int32(p.Port), Protocol: corev1.Protocol(p.Proto)}
			if p.TargetNum != 0 {
				sp.TargetPort = intstr.FromInt32(int32(p.TargetNum))
			} else if p.TargetName != "" {
				sp.TargetPort = intstr.FromString(p.TargetName)
			}
			k.Spec.Ports = append(k.Spec.Ports, sp)
		}
		docs = append(docs, Doc{Kind: "Service", Key: "Service/" + sv.Ns + "/" + sv.Name, Obj: k})
	}
	kb := func(b Backend) netv1.IngressBackend {
		return netv1.IngressBackend{Service: &netv1.IngressServiceBackend{Name: b.Svc, Port: netv1.ServiceBackendPort{Name: b.PortName, Number: int32(b.PortNum)}}}
	}
	for _, g := range w.Ingresses {
		k := &netv1.Ingress{TypeMeta: metav1.TypeMeta{APIVersion: "networking.k8s.io/v1", Kind: "Ingress"}, ObjectMeta: metav1.ObjectMeta{Name: g.Name, Namespace: w.omitNs("ing", g.Name, g.Ns)}}
		if g.Default != nil {
			b := kb(*g.Default)
			k.Spec.DefaultBackend = &b
		}
		for ri, r := range g.Rules {
			host := "example.com"
			if g.HostStyle > 0 {
				host = ingHosts[(g.HostStyle+ri)%len(ingHosts)]
			}
			if len(r) == 0 {
				// a rule with a host only: its traffic goes to the default backend
				if g.HostStyle == 0 || host == "" {
					host = "only-host.example.com"
				}
				k.Spec.Rules = append(k.Spec.Rules, netv1.IngressRule{Host: host})
				continue
			}
			rule := netv1.IngressRule{Host: host, IngressRuleValue: netv1.IngressRuleValue{HTTP: &netv1.HTTPIngressRuleValue{}}}
			for bi, b := range r {
				pt, path := netv1.PathTypePrefix, "/"
				if g.HostStyle > 0 {
					pt = ingPathTypes[(g.HostStyle+bi)%len(ingPathTypes)]
					path = ingPaths[(g.HostStyle+ri+bi)%len(ingPaths)]
				}
				rule.HTTP.Paths = append(rule.HTTP.Paths, netv1.HTTPIngressPath{Path: path, PathType: &pt, Backend: kb(b)})
			}
			k.Spec.Rules = append(k.Spec.Rules, rule)
		}
		docs = append(docs, Doc{Kind: "Ingress", Key: "Ingress/" + g.Ns + "/" + g.Name, Obj: k})
	}
	for _, r := range w.Routes {
		k := &ocroutev1.Route{TypeMeta: metav1.TypeMeta{APIVersion: "route.openshift.io/v1", Kind: "Route"}, ObjectMeta: metav1.ObjectMeta{Name: r.Name, Namespace: w.omitNs("rt", r.Name, r.Ns)}}
		k0, _ := r.refKind(0)
		k.Spec.To = ocroutev1.RouteTargetReference{Kind: k0, Name: r.To}
		for i, a := range r.Alt {
			ki, _ := r.refKind(i + 1)
			k.Spec.AlternateBackends = append(k.Spec.AlternateBackends, ocroutev1.RouteTargetReference{Kind: ki, Name: a})
		}
		if r.TargetName != "" {
			k.Spec.Port = &ocroutev1.RoutePort{TargetPort: intstr.FromString(r.TargetName)}
		} else if r.TargetNum != 0 {
			k.Spec.Port = &ocroutev1.RoutePort{TargetPort: intstr.FromInt32(int32(r.TargetNum))}
		}
		docs = append(docs, Doc{Kind: "Route", Key: "Route/" + r.Ns + "/" + r.Name, Obj: k})
	}
	return docs
}

// hosts, paths and path types an API server accepts ("" = the rule applies to every host; wildcard hosts; an IDN)
var ingHosts = []string{"example.com", "", "*.example.com", "api.v2.example.com", "*.apps.cluster.local", "xn--bcher-kva.example", "a.b"}
var ingPaths = []string{"/", "/api", "/api/v1/", "/static/img", "/healthz"}
var ingPathTypes = []netv1.PathType{netv1.PathTypePrefix, netv1.PathTypeExact, netv1.PathTypeImplementationSpecific}

func (w *World) YAML() string {
	var parts []string
	for _, d := range w.Docs() {
		parts = append(parts, string(d.YAML()))
	}
	return strings.Join(parts, "---\n")
}

// Layout places documents (by index into Docs()) into files. nil layout => one file all.yaml in document order.
type Layout struct {
	Files []LFile
}
type LFile struct {
	Path string // relative, may contain sub-directories; extension .yaml .yml or .json (json: exactly one doc, or a List)
	Docs []int
	// AsList: the documents are wrapped in one `v1 List` object (as `kubectl get -o yaml` writes them)
	AsList bool `json:",omitempty"`
	// Style of a multi-document YAML stream: 0 plain; 1 CRLF line ends; 2 empty documents and comment-only documents
	// between the real ones; 3 a leading and a trailing document separator; 4 all of these
	Style int `json:",omitempty"`
}

var scratchRoot = func() string {
	if fi, err := os.Stat("/dev/shm"); err == nil && fi.IsDir() {
		return "/dev/shm"
	}
	return os.TempDir()
}()

func mkScratch() string {
	dir, err := os.MkdirTemp(scratchRoot, "verif-case-")
	if err != nil {
		panic(err)
	}
	return dir
}

// WriteDir writes the world to a fresh scratch directory and returns it. Caller removes it.
func (w *World) WriteDir() string { return w.WriteLayout(nil) }

func (w *World) WriteLayout(l *Layout) string {
	dir := mkScratch()
	WriteDocs(dir, w.Docs(), l)
	return dir
}

func WriteDocs(dir string, docs []Doc, l *Layout) {
	if l == nil {
		var parts []string
		for _, d := range docs {
			parts = append(parts, string(d.YAML()))
		}
		writeFile(filepath.Join(dir, "all.yaml"), []byte(strings.Join(parts, "---\n")))
		return
	}
	for _, f := range l.Files {
		if len(f.Docs) == 0 {
			continue
		}
		var content []byte
		if f.AsList {
			items := []interface{}{}
			for _, di := range f.Docs {
				var m map[string]interface{}
				if err := json.Unmarshal(docs[di].JSON(), &m); err != nil {
					panic(err)
				}
				items = append(items, m)
			}
			list := map[string]interface{}{"apiVersion": "v1", "kind": "List", "items": items}
			var err error
			if strings.HasSuffix(f.Path, ".json") {
				content, err = json.Marshal(list)
			} else {
				content, err = yaml.Marshal(list)
			}
			if err != nil {
				panic(err)
			}
		} else if strings.HasSuffix(f.Path, ".json") && len(f.Docs) == 1 {
			content = docs[f.Docs[0]].JSON()
		} else {
			var parts []string
			for _, di := range f.Docs {
				parts = append(parts, string(docs[di].YAML()))
			}
			sep := "---\n"
			if f.Style == 2 || f.Style == 4 {
				sep = "---\n---\n# a document that holds only this comment\n\n---\n"
			}
			text := strings.Join(parts, sep)
			if f.Style == 3 || f.Style == 4 {
				text = "---\n# first\n" + text + "---\n"
			}
			if f.Style == 1 || f.Style == 4 {
				text = strings.ReplaceAll(text, "\n", "\r\n")
			}
			content = []byte(text)
		}
		writeFile(filepath.Join(dir, f.Path), content)
	}
}

func writeFile(path string, content []byte) {
	if err := os.MkdirAll(filepath.Dir(path), 0o755); err != nil {
		panic(err)
	}
	if err := os.WriteFile(path, content, 0o644); err != nil {
		panic(err)
	}
}
