package harness

// Shared plumbing for every property test: statistics -> evidence, failure -> replay file, replay entry
// point, known-finding signatures. Self-contained (stdlib + rapid): the driver also injects this very file
// (with the package clause rewritten) into pkg/netpol/internal/common for the in-package C11 harness.

import (
	"encoding/json"
	"fmt"
	"hash/fnv"
	"os"
	"runtime"
	"runtime/debug"
	"sort"
	"strconv"
	"strings"
	"testing"
	"time"

	"pgregory.net/rapid"
)

// VFailure describes a violated oracle. Sig is a candidate known-finding signature ("" = none): a narrow
// predicate of both the input shape and the observed failure, computed next to the oracle.
type VFailure struct {
	Msg string
	Sig string
}

func vfail(format string, a ...interface{}) *VFailure {
	return &VFailure{Msg: fmt.Sprintf(format, a...)}
}

type VStats struct {
	Property     string                 `json:"property"`
	Evaluations  int                    `json:"evaluations"`
	OraclePoints int64                  `json:"oracle_points"`
	Classes      map[string]int         `json:"classes"`
	NonTrivial   []string               `json:"nontrivial_hashes"`
	Samples      []json.RawMessage      `json:"samples"`
	Known        map[string]int         `json:"known"`
	Failed       bool                   `json:"failed"`
	FailMsg      string                 `json:"fail_msg,omitempty"`
	FailSig      string                 `json:"fail_sig,omitempty"`
	Extra        map[string]interface{} `json:"extra,omitempty"`
	nontriv      map[uint64]bool
	frozen       bool
}

func newVStats(id string) *VStats {
	return &VStats{Property: id, Classes: map[string]int{}, Known: map[string]int{}, nontriv: map[uint64]bool{}, Extra: map[string]interface{}{}}
}

// Class counts a label of the current case (the distribution is reported in the evidence file).
func (s *VStats) Class(name string) {
	if !s.frozen {
		s.Classes[name]++
	}
}

func (s *VStats) Points(n int) {
	if !s.frozen {
		s.OraclePoints += int64(n)
	}
}

const maxSamples = 3
const maxSampleBytes = 2500

// NonTrivialCase records that the case is non-trivial by the property's stated rule; distinctness is by a
// 64-bit hash of the case's JSON encoding.
func (s *VStats) NonTrivialCase(c interface{}) {
	if s.frozen {
		return
	}
	b, err := json.Marshal(c)
	if err != nil {
		panic(err)
	}
	h := fnv.New64a()
	h.Write(b)
	k := h.Sum64()
	if s.nontriv[k] {
		return
	}
	s.nontriv[k] = true
	if len(s.Samples) < maxSamples {
		if len(b) > maxSampleBytes {
			t, _ := json.Marshal(string(b[:maxSampleBytes]) + "...(truncated)")
			b = t
		}
		s.Samples = append(s.Samples, json.RawMessage(b))
	}
}

// NonTrivialKeyed is NonTrivialCase with an explicit distinctness key (e.g. kind+path+mutation) and sample.
func (s *VStats) NonTrivialKeyed(key string, sample interface{}) {
	if s.frozen {
		return
	}
	h := fnv.New64a()
	h.Write([]byte(key))
	k := h.Sum64()
	if s.nontriv[k] {
		return
	}
	s.nontriv[k] = true
	if len(s.Samples) < maxSamples {
		b, err := json.Marshal(sample)
		if err != nil {
			panic(err)
		}
		if len(b) > maxSampleBytes {
			t, _ := json.Marshal(string(b[:maxSampleBytes]) + "...(truncated)")
			b = t
		}
		s.Samples = append(s.Samples, json.RawMessage(b))
	}
}

func (s *VStats) flush() {
	path := os.Getenv("VERIF_STATS")
	if path == "" {
		return
	}
	s.NonTrivial = []string{}
	for k := range s.nontriv {
		s.NonTrivial = append(s.NonTrivial, fmt.Sprintf("%016x", k))
	}
	sort.Strings(s.NonTrivial)
	b, err := json.Marshal(s)
	if err != nil {
		panic(err)
	}
	if err := os.WriteFile(path, b, 0o644); err != nil {
		panic(err)
	}
}

// known-finding signatures listed in the committed file (read-only at run time): "known: property=C10 sig=<sig> ..."
func loadKnownSigs() map[string]bool {
	res := map[string]bool{}
	path := os.Getenv("VERIF_KNOWN")
	if path == "" {
		return res
	}
	b, err := os.ReadFile(path)
	if err != nil {
		return res
	}
	for _, line := range strings.Split(string(b), "\n") {
		line = strings.TrimSpace(line)
		if !strings.HasPrefix(line, "known:") {
			continue
		}
		var prop, sig string
		for _, f := range strings.Fields(line) {
			if strings.HasPrefix(f, "property=") {
				prop = strings.TrimPrefix(f, "property=")
			}
			if strings.HasPrefix(f, "sig=") {
				sig = strings.TrimPrefix(f, "sig=")
			}
		}
		if prop != "" && sig != "" {
			res[prop+":"+sig] = true
		}
	}
	return res
}

type vCaseFile struct {
	Property string          `json:"property"`
	Message  string          `json:"message"`
	Sig      string          `json:"sig,omitempty"`
	Case     json.RawMessage `json:"case"`
}

func writeCaseFile(id string, c interface{}, f *VFailure) {
	path := os.Getenv("VERIF_CASE_OUT")
	if path == "" {
		return
	}
	raw, err := json.Marshal(c)
	if err != nil {
		panic(err)
	}
	b, _ := json.MarshalIndent(vCaseFile{Property: id, Message: f.Msg, Sig: f.Sig, Case: raw}, "", " ")
	_ = os.WriteFile(path, b, 0o644)
}

func safeCheck[C any](check func(*C, *VStats) *VFailure, c *C, st *VStats) (f *VFailure) {
	defer func() {
		if r := recover(); r != nil {
			f = &VFailure{Msg: fmt.Sprintf("HARNESS-PANIC (a bug in the checking code, not a verdict): %v\n%s", r, debug.Stack()), Sig: "harness-panic"}
		}
	}()
	return check(c, st)
}

var vReplayers = map[string]func(raw []byte, st *VStats) *VFailure{}

// vRunProp drives one property: gen draws a JSON-serialisable case inside the library (so that it shrinks and
// replays); check is a pure function of the case and the code under test.
func vRunProp[C any](t *testing.T, id string, gen func(*rapid.T) *C, check func(*C, *VStats) *VFailure) {
	st := newVStats(id)
	defer st.flush()
	known := loadKnownSigs()
	// soft time budget (seconds): once it is used up the remaining cases are not run, the evidence shows fewer
	// evaluations than requested and the driver reports the run as inconclusive - never as a violation
	var budget time.Duration
	if v, err := strconv.Atoi(os.Getenv("VERIF_BUDGET_S")); err == nil && v > 0 {
		budget = time.Duration(v) * time.Second
	}
	start := time.Now()
	ncases := 0
	rapid.Check(t, func(rt *rapid.T) {
		if budget > 0 && time.Since(start) > budget && !st.frozen {
			st.Extra["time_budget_hit"] = true
			return
		}
		c := gen(rt)
		if !st.frozen {
			st.Evaluations++
		}
		f := safeCheck(check, c, st)
		// the engine's verdict cache runs in debug mode and opens cacheHitsLog.txt at every hit without closing it; the
		// descriptors are only released by finalizers. Collect regularly, so that a shard full of eval queries on a busy
		// machine does not run into the descriptor limit (seen once: "too many open files" = an infrastructure failure).
		if ncases++; ncases%16 == 0 {
			runtime.GC()
		}
		if f == nil {
			return
		}
		if f.Sig != "" && known[id+":"+f.Sig] {
			if !st.frozen {
				st.Known[f.Sig]++
			}
			return
		}
		st.frozen = true
		st.Failed = true
		st.FailMsg = f.Msg
		st.FailSig = f.Sig
		writeCaseFile(id, c, f)
		rt.Fatalf("%s", f.Msg)
	})
}

func vRegister[C any](id string, check func(*C, *VStats) *VFailure) {
	vReplayers[id] = func(raw []byte, st *VStats) *VFailure {
		c := new(C)
		if err := json.Unmarshal(raw, c); err != nil {
			return &VFailure{Msg: "cannot decode replay case: " + err.Error(), Sig: "bad-replay"}
		}
		return safeCheck(check, c, st)
	}
}

type vReplayResult struct {
	Property string `json:"property"`
	Failed   bool   `json:"failed"`
	Sig      string `json:"sig,omitempty"`
	Msg      string `json:"msg,omitempty"`
}

// vReplay is the library-free regression entry point: VERIF_REPLAY names a case file, the result goes to
// VERIF_REPLAY_OUT. VERIF_REPLAY_REPEAT re-runs the case (for failures that depend on Go's map order).
func vReplay(t *testing.T) {
	path := os.Getenv("VERIF_REPLAY")
	if path == "" {
		t.Skip("VERIF_REPLAY not set")
	}
	b, err := os.ReadFile(path)
	if err != nil {
		t.Fatal(err)
	}
	var cf vCaseFile
	if err := json.Unmarshal(b, &cf); err != nil {
		t.Fatal(err)
	}
	rp, ok := vReplayers[cf.Property]
	if !ok {
		t.Skipf("no replayer for %s in this binary", cf.Property)
	}
	repeat := 1
	fmt.Sscanf(os.Getenv("VERIF_REPLAY_REPEAT"), "%d", &repeat)
	res := vReplayResult{Property: cf.Property}
	for i := 0; i < repeat && !res.Failed; i++ {
		if f := rp(cf.Case, newVStats(cf.Property)); f != nil {
			res.Failed, res.Sig, res.Msg = true, f.Sig, f.Msg
		}
	}
	if out := os.Getenv("VERIF_REPLAY_OUT"); out != "" {
		rb, _ := json.Marshal(res)
		_ = os.WriteFile(out, rb, 0o644)
	}
	if res.Failed {
		t.Logf("replay of %s FAILS: sig=%q\n%s", path, res.Sig, res.Msg)
	} else {
		t.Logf("replay of %s passes", path)
	}
}

// vFuzzProp exposes the same generator and checker to Go's native coverage-guided fuzzer (thorough tier): the fuzz
// input is the bit stream rapid draws from. A failure writes the case file like vRunProp does.
func vFuzzProp[C any](f *testing.F, id string, gen func(*rapid.T) *C, check func(*C, *VStats) *VFailure) {
	known := loadKnownSigs()
	st := newVStats(id)
	// seed corpus: long bit streams (the generators consume hundreds of bytes; short inputs are rejected at once).
	// A fixed linear congruential sequence - no RNG of our own at run time, the corpus is a constant.
	for k := uint32(1); k <= 6; k++ {
		buf := make([]byte, 16384)
		x := k * 2654435761
		for i := range buf {
			x = x*1664525 + 1013904223
			buf[i] = byte(x >> 24)
		}
		f.Add(buf)
	}
	f.Fuzz(rapid.MakeFuzz(func(rt *rapid.T) {
		c := gen(rt)
		fl := safeCheck(check, c, st)
		if fl == nil || (fl.Sig != "" && known[id+":"+fl.Sig]) {
			return
		}
		writeCaseFile(id, c, fl)
		rt.Fatalf("%s", fl.Msg)
	}))
}
