package harness

import (
	"fmt"
	"os"
	"sort"
	"strings"
	"testing"

	"pgregory.net/rapid"
)

// ---------- C04: diff is pointwise exact w.r.t. the two reports ----------

type C04Case struct {
	A, B *World
	// StopOnError: list and diff run with the stop-on-first-error option (the inputs are clean: it must not matter)
	StopOnError bool `json:",omitempty"`
}

// editWorld applies 1-4 drawn edits to a clone of w.
func editWorld(t *rapid.T, w *World) *World {
	b := w.Clone()
	cfg := &GenCfg{NoNamedRisk: true}
	n := rapid.IntRange(1, 4).Draw(t, "nedits")
	for e := 0; e < n; e++ {
		l := fmt.Sprintf("ed%d", e)
		nk := 10
		if len(b.Services)+len(b.Ingresses)+len(b.Routes) > 0 {
			nk = 14 // worlds with an ingress stage: its objects are edited too
		}
		switch rapid.IntRange(0, nk).Draw(t, l+"kind") {
		case 11: // drop an Ingress or a Route
			if len(b.Ingresses) > 0 && (len(b.Routes) == 0 || rapid.Bool().Draw(t, l+"ingorroute")) {
				k := rapid.IntRange(0, len(b.Ingresses)-1).Draw(t, l+"k")
				b.Ingresses = append(b.Ingresses[:k:k], b.Ingresses[k+1:]...)
			} else if len(b.Routes) > 0 {
				k := rapid.IntRange(0, len(b.Routes)-1).Draw(t, l+"k")
				b.Routes = append(b.Routes[:k:k], b.Routes[k+1:]...)
			}
		case 12, 13: // a Service port loses or changes its target, or goes away (the ingress-controller line CHANGES)
			if len(b.Services) > 0 {
				sv := &b.Services[rapid.IntRange(0, len(b.Services)-1).Draw(t, l+"k")]
				if len(sv.Ports) > 0 {
					pi := rapid.IntRange(0, len(sv.Ports)-1).Draw(t, l+"sp")
					ports := append([]SvcPort{}, sv.Ports...)
					switch rapid.IntRange(0, 2).Draw(t, l+"spedit") {
					case 0:
						if len(ports) > 1 {
							ports = append(ports[:pi:pi], ports[pi+1:]...)
						}
					case 1:
						ports[pi].TargetName, ports[pi].TargetNum = "", rapid.SampledFrom(svcPortPool).Draw(t, l+"sptn")
					default:
						ports[pi].TargetName, ports[pi].TargetNum = "", 0
					}
					sv.Ports = ports
				}
			}
		case 14: // drop a Service
			if len(b.Services) > 0 {
				k := rapid.IntRange(0, len(b.Services)-1).Draw(t, l+"k")
				b.Services = append(b.Services[:k:k], b.Services[k+1:]...)
			}
		case 0: // remove a policy
			if len(b.NPs) > 0 {
				k := rapid.IntRange(0, len(b.NPs)-1).Draw(t, l+"k")
				b.NPs = append(append([]NetPol{}, b.NPs[:k]...), b.NPs[k+1:]...)
			}
		case 1: // add a policy
			ns := b.Namespaces[rapid.IntRange(0, len(b.Namespaces)-1).Draw(t, l+"ns")].Name
			p := genNetPol(t, l+"np", ns, cfg)
			p.Name = fmt.Sprintf("added%d", e)
			b.NPs = append(b.NPs, p)
		case 2: // add a rule with an ipBlock that re-cuts the partition
			if len(b.NPs) > 0 {
				p := &b.NPs[rapid.IntRange(0, len(b.NPs)-1).Draw(t, l+"k")]
				r := Rule{Peers: []Peer{{IPBlock: genCIDR(t, l+"ip")}}}
				if rapid.Bool().Draw(t, l+"hasport") {
					r.Ports = []PPort{genPPort(t, l+"port", false)}
				}
				if rapid.Bool().Draw(t, l+"ing") {
					p.Ingress = append(p.Ingress, r)
				} else {
					p.Egress = append(p.Egress, r)
				}
			}
		case 3: // drop a rule
			if len(b.NPs) > 0 {
				p := &b.NPs[rapid.IntRange(0, len(b.NPs)-1).Draw(t, l+"k")]
				if len(p.Ingress) > 0 {
					p.Ingress = p.Ingress[1:]
				} else if len(p.Egress) > 0 {
					p.Egress = p.Egress[1:]
				}
			}
		case 4: // modify ports of a rule
			if len(b.NPs) > 0 {
				p := &b.NPs[rapid.IntRange(0, len(b.NPs)-1).Draw(t, l+"k")]
				for _, rs := range [][]Rule{p.Ingress, p.Egress} {
					if len(rs) > 0 {
						rs[0].Ports = []PPort{genPPort(t, l+"port", false)}
						break
					}
				}
			}
		case 5: // remove a workload
			if len(b.Workloads) > 1 {
				k := rapid.IntRange(0, len(b.Workloads)-1).Draw(t, l+"k")
				b.Workloads = append(append([]Workload{}, b.Workloads[:k]...), b.Workloads[k+1:]...)
			}
		case 6: // add a workload
			ns := b.Namespaces[rapid.IntRange(0, len(b.Namespaces)-1).Draw(t, l+"ns")].Name
			nw := genWorkload(t, l+"wl", ns, cfg)
			clash := false
			for _, x := range b.Workloads {
				if x.Ns == nw.Ns && x.Name == nw.Name {
					clash = true
				}
			}
			if !clash {
				b.Workloads = append(b.Workloads, nw)
			}
		case 7: // change a workload's kind (the peer string changes: removed + added)
			k := rapid.IntRange(0, len(b.Workloads)-1).Draw(t, l+"k")
			nk := rapid.SampledFrom(allKinds).Draw(t, l+"newkind")
			namesake := false
			for j, x := range b.Workloads {
				if j != k && x.Ns == b.Workloads[k].Ns && x.Name == b.Workloads[k].Name {
					namesake = true // two controller kinds of one name in one namespace: the recorded finding F-C17-1
				}
			}
			if !namesake {
				b.Workloads[k].Kind = nk
			}
		case 9, 10: // move an ipBlock to another CIDR keeping its ports (one range loses exactly what another gains)
			var blocks []*IPBlock
			for i := range b.NPs {
				for _, rs := range [][]Rule{b.NPs[i].Ingress, b.NPs[i].Egress} {
					for ri := range rs {
						for pi := range rs[ri].Peers {
							if ib := rs[ri].Peers[pi].IPBlock; ib != nil {
								blocks = append(blocks, ib)
							}
						}
					}
				}
			}
			if len(blocks) > 0 {
				ib := blocks[rapid.IntRange(0, len(blocks)-1).Draw(t, l+"blk")]
				ib.CIDR = rapid.SampledFrom([]string{"11.0.0.0/8", "10.0.0.0/8", "10.1.0.0/16", "10.2.0.0/16", "172.16.0.0/12", "192.168.0.0/16", "10.1.2.3/32", "10.1.2.4/32"}).Draw(t, l+"newcidr")
				ib.Except = nil
			}
		case 8: // change except list of an ipBlock
			for i := range b.NPs {
				for _, rs := range [][]Rule{b.NPs[i].Ingress, b.NPs[i].Egress} {
					for ri := range rs {
						for pi := range rs[ri].Peers {
							if ib := rs[ri].Peers[pi].IPBlock; ib != nil {
								if len(ib.Except) > 0 {
									ib.Except = ib.Except[1:]
								} else if subs, ok := subOf[ib.CIDR]; ok {
									ib.Except = []string{rapid.SampledFrom(subs).Draw(t, l+"ex")}
								}
							}
						}
					}
				}
			}
		}
	}
	return b
}

// genSparseDiffPair: two versions of a LOCKED-DOWN application behind Ingresses/Routes, so that every edit shows as one
// or two diff entries instead of dozens: every namespace admits traffic from all namespaces and allows no egress, hence
// the only connections are the {ingress-controller} lines. One version then (a) edits the ingress stage (a Service port
// goes away or is re-targeted, an Ingress/Route or a Service is dropped: ingress lines change or disappear) and
// (b) lets one or two workloads talk to one other workload (one or two added - or, with the versions swapped,
// removed - lines). Diffs with a handful of entries of DIFFERENT categories are what the random edits never give.
func genSparseDiffPair(t *rapid.T) (a, b *World) {
	a = GenIngressWorld(t, false)
	a.NPs, a.ANPs, a.BANP = nil, nil, nil
	for _, ns := range a.Namespaces {
		a.NPs = append(a.NPs, NetPol{Ns: ns.Name, Name: "lockdown", PolicyTypes: []string{"Ingress", "Egress"},
			Ingress: []Rule{{Peers: []Peer{{NsSel: &Selector{}}}}}})
	}
	b = a.Clone()
	ne := rapid.IntRange(1, 2).Draw(t, "sparseing")
	for e := 0; e < ne; e++ {
		l := fmt.Sprintf("sp%d", e)
		switch rapid.IntRange(0, 3).Draw(t, l+"kind") {
		case 0:
			if len(b.Ingresses) > 0 {
				k := rapid.IntRange(0, len(b.Ingresses)-1).Draw(t, l+"k")
				b.Ingresses = append(b.Ingresses[:k:k], b.Ingresses[k+1:]...)
			} else if len(b.Routes) > 0 {
				k := rapid.IntRange(0, len(b.Routes)-1).Draw(t, l+"k")
				b.Routes = append(b.Routes[:k:k], b.Routes[k+1:]...)
			}
		case 1, 2:
			if len(b.Services) > 0 {
				sv := &b.Services[rapid.IntRange(0, len(b.Services)-1).Draw(t, l+"k")]
				if len(sv.Ports) > 0 {
					pi := rapid.IntRange(0, len(sv.Ports)-1).Draw(t, l+"sp")
					ports := append([]SvcPort{}, sv.Ports...)
					if len(ports) > 1 && rapid.Bool().Draw(t, l+"drop") {
						ports = append(ports[:pi:pi], ports[pi+1:]...)
					} else {
						ports[pi].TargetName, ports[pi].TargetNum = "", rapid.SampledFrom(svcPortPool).Draw(t, l+"tn")
					}
					sv.Ports = ports
				}
			}
		default:
			if len(b.Services) > 0 {
				k := rapid.IntRange(0, len(b.Services)-1).Draw(t, l+"k")
				b.Services = append(b.Services[:k:k], b.Services[k+1:]...)
			}
		}
	}
	if len(b.Workloads) >= 2 {
		nt := rapid.IntRange(1, 2).Draw(t, "sparsetalk")
		for e := 0; e < nt; e++ {
			l := fmt.Sprintf("talk%d", e)
			i := rapid.IntRange(0, len(b.Workloads)-1).Draw(t, l+"src")
			j := rapid.IntRange(0, len(b.Workloads)-2).Draw(t, l+"dst")
			if j >= i {
				j++
			}
			src, dst := &b.Workloads[i], &b.Workloads[j]
			if src.Labels == nil {
				src.Labels = map[string]string{}
			}
			src.Labels["talker"] = fmt.Sprintf("t%d", e)
			for k := range a.Workloads {
				if a.Workloads[k].Ns == src.Ns && a.Workloads[k].Name == src.Name && a.Workloads[k].Kind == src.Kind {
					if a.Workloads[k].Labels == nil {
						a.Workloads[k].Labels = map[string]string{}
					}
					a.Workloads[k].Labels["talker"] = src.Labels["talker"] // the label is in both versions, the rule in one
				}
			}
			r := Rule{Peers: []Peer{{NsSel: &Selector{}, PodSel: &Selector{MatchLabels: copyMapS(dst.Labels)}}}}
			if rapid.Bool().Draw(t, l+"port") {
				r.Ports = []PPort{{Proto: "TCP", PortNum: rapid.SampledFrom(svcPortPool).Draw(t, l+"p")}}
			}
			b.NPs = append(b.NPs, NetPol{Ns: src.Ns, Name: "talk-" + src.Labels["talker"], PodSel: Selector{MatchLabels: map[string]string{"talker": src.Labels["talker"]}},
				PolicyTypes: []string{"Egress"}, Egress: []Rule{r}})
		}
	}
	if rapid.Bool().Draw(t, "sparseswap") {
		a, b = b, a
	}
	return a, b
}

func genC04(t *rapid.T) *C04Case {
	var a *World
	switch rapid.IntRange(0, 5).Draw(t, "worldkind") {
	case 0:
		a = GenWorld(t, GenCfg{Admin: true, NoNamedRisk: true})
	case 1, 2:
		a = GenIngressWorld(t, false)
		// a Service without selector (the tool ignores it, with a warning): here the oracle is `list` itself, so the
		// shape is in the domain although the C10 reference model is silent on it
		if len(a.Services) > 0 && rapid.IntRange(0, 2).Draw(t, "selectorless") == 0 {
			a.Services[rapid.IntRange(0, len(a.Services)-1).Draw(t, "selectorlesssvc")].Selector = nil
		}
	default:
		a = GenWorld(t, GenCfg{NoNamedRisk: true})
	}
	if len(a.Workloads) >= 2 && len(a.ANPs) == 0 && rapid.IntRange(0, 4).Draw(t, "samechange") == 0 {
		// two workloads with the SAME connections towards DIFFERENT external ranges (same number of blocks): whatever diff
		// keeps per group of equal connection values must not leak from one workload to the other
		i := rapid.IntRange(0, len(a.Workloads)-1).Draw(t, "sc1")
		j := rapid.IntRange(0, len(a.Workloads)-2).Draw(t, "sc2")
		if j >= i {
			j++
		}
		port := PPort{Proto: rapid.SampledFrom([]string{"", "TCP", "UDP"}).Draw(t, "scproto"), PortNum: rapid.SampledFrom([]int{80, 443, 53}).Draw(t, "scport")}
		ing := rapid.Bool().Draw(t, "scdir")
		pair := rapid.SampledFrom([][2]string{{"10.0.0.0/8", "172.16.0.0/12"}, {"10.1.0.0/16", "192.168.49.2/31"}, {"0.0.0.0/1", "128.0.0.0/1"}, {"10.1.2.0/24", "10.244.0.7/32"}}).Draw(t, "sccidrs")
		for k, wi := range []int{i, j} {
			x := &a.Workloads[wi]
			if x.Labels == nil {
				x.Labels = map[string]string{}
			}
			x.Labels["twin"] = fmt.Sprintf("t%d", k)
			r := Rule{Peers: []Peer{{IPBlock: &IPBlock{CIDR: pair[k]}}}, Ports: []PPort{port}}
			p := NetPol{Ns: x.Ns, Name: fmt.Sprintf("np-same%d", k), PodSel: Selector{MatchLabels: map[string]string{"twin": x.Labels["twin"]}}}
			if ing {
				p.PolicyTypes, p.Ingress = []string{"Ingress"}, []Rule{r}
			} else {
				p.PolicyTypes, p.Egress = []string{"Egress"}, []Rule{r}
			}
			a.NPs = append(a.NPs, p)
		}
	}
	c := &C04Case{A: a, StopOnError: rapid.IntRange(0, 3).Draw(t, "stoponerr") == 0}
	if rapid.IntRange(0, 5).Draw(t, "sparse") == 0 {
		c.A, c.B = genSparseDiffPair(t)
		return c
	}
	if rapid.IntRange(0, 3).Draw(t, "independent") == 0 {
		c.B = GenWorld(t, GenCfg{NoNamedRisk: true})
	} else {
		c.B = editWorld(t, a)
	}
	return c
}

func isIPRangePeer(p string) (lo, hi uint64, ok bool) {
	if strings.Contains(p, "/") || strings.Contains(p, "{") {
		return 0, 0, false
	}
	q := strings.Split(p, "-")
	if len(q) != 2 {
		return 0, 0, false
	}
	lo, ok1 := ip4(q[0])
	hi, ok2 := ip4(q[1])
	return lo, hi, ok1 && ok2
}

func dCovers(peer string, wl string, addr uint64, isAddr bool) bool {
	if !isAddr {
		return peer == wl
	}
	lo, hi, ok := isIPRangePeer(peer)
	return ok && addr >= lo && addr <= hi
}

func checkC04(c *C04Case, st *VStats) *VFailure {
	da, db := c.A.WriteDir(), c.B.WriteDir()
	defer os.RemoveAll(da)
	defer os.RemoveAll(db)
	ra, rb := RunList(da, ListOpts{StopOnError: c.StopOnError}), RunList(db, ListOpts{StopOnError: c.StopOnError})
	if ra.Panic != nil || rb.Panic != nil {
		return &VFailure{Msg: fmt.Sprintf("list panicked: %v %v", ra.Panic, rb.Panic), Sig: "panic"}
	}
	if ra.Err != nil || rb.Err != nil {
		st.Class("skip: a list run returned an error")
		return nil
	}
	d := RunDiff(da, db, DiffOpts{StopOnError: c.StopOnError})
	if d.Panic != nil {
		return &VFailure{Msg: fmt.Sprintf("diff panicked: %v", d.Panic), Sig: "panic"}
	}
	if d.Err != nil {
		return vfail("diff fails where both list runs succeed: %v", d.Err)
	}
	// diff(A,A) is empty
	self := RunDiff(da, da, DiffOpts{StopOnError: c.StopOnError})
	if self.Panic != nil || self.Err != nil {
		return vfail("diff(A,A) fails: %v %v", self.Panic, self.Err)
	}
	if !self.Empty {
		return vfail("diff(A,A) is not empty")
	}
	for _, e := range self.Ents {
		if e.Typ != "unchanged" {
			return vfail("diff(A,A) has a %s entry %s => %s", e.Typ, e.Src, e.Dst)
		}
	}
	inA, inB := map[string]bool{}, map[string]bool{}
	wlset := map[string]bool{}
	for _, x := range ra.Wls {
		wlset[x], inA[x] = true, true
	}
	for _, x := range rb.Wls {
		wlset[x], inB[x] = true, true
	}
	// the fake ingress-controller peer occurs as a source only
	srcs := map[string]bool{}
	for x := range wlset {
		srcs[x] = true
	}
	for _, r := range []*ListRes{ra, rb} {
		for k := range r.Conns {
			s, _ := splitKey(k)
			if strings.HasPrefix(s, "{") {
				srcs[s] = true
			}
		}
	}
	var wls, srcl []string
	for x := range wlset {
		wls = append(wls, x)
	}
	for x := range srcs {
		srcl = append(srcl, x)
	}
	sort.Strings(wls)
	sort.Strings(srcl)
	var extra []uint64
	for _, r := range append(append([]IPR{}, ra.IPs...), rb.IPs...) {
		extra = append(extra, r.Lo, r.Hi)
	}
	for _, e := range d.Ents {
		for _, p := range []string{e.Src, e.Dst} {
			if lo, hi, ok := isIPRangePeer(p); ok {
				extra = append(extra, lo, hi)
			}
		}
	}
	addrs := (&World{NPs: append(append([]NetPol{}, c.A.NPs...), c.B.NPs...)}).addrConstants(extra)
	look := func(r *ListRes, s, dd string, sa, dA uint64, sIs, dIs bool) string {
		if sIs {
			s = r.IPPeerOf(sa)
		}
		if dIs {
			dd = r.IPPeerOf(dA)
		}
		return r.Conns[peerKey(s, dd)].Str()
	}
	npoints := 0
	var fail *VFailure
	point := func(s, dd string, sa, dA uint64, sIs, dIs bool) {
		if fail != nil {
			return
		}
		c1 := look(ra, s, dd, sa, dA, sIs, dIs)
		c2 := look(rb, s, dd, sa, dA, sIs, dIs)
		var cov []DEnt
		for _, e := range d.Ents {
			if dCovers(e.Src, s, sa, sIs) && dCovers(e.Dst, dd, dA, dIs) {
				cov = append(cov, e)
			}
		}
		sd, ddesc := s, dd
		if sIs {
			sd = addrStr(sa)
		}
		if dIs {
			ddesc = addrStr(dA)
		}
		desc := fmt.Sprintf("point %s -> %s: c1=%s c2=%s covering entries=%+v", sd, ddesc, c1, c2, cov)
		npoints++
		if c1 == "none" && c2 == "none" {
			if len(cov) != 0 {
				fail = vfail("diff has an entry for a point with no connection on either side: %s", desc)
			}
			return
		}
		if len(cov) != 1 {
			fail = vfail("want exactly one covering diff entry: %s", desc)
			return
		}
		e := cov[0]
		want := "changed"
		switch {
		case c1 == c2:
			want = "unchanged"
		case c1 == "none":
			want = "added"
		case c2 == "none":
			want = "removed"
		}
		if e.Typ != want || e.C1 != c1 || e.C2 != c2 {
			fail = vfail("wrong diff entry (want type %s carrying c1, c2): %s", want, desc)
			return
		}
		isWl := func(p string) bool { return strings.Contains(p, "[") }
		wantNewSrc := !sIs && isWl(s) && (want == "added" && !inA[s] || want == "removed" && !inB[s])
		wantNewDst := !dIs && isWl(dd) && (want == "added" && !inA[dd] || want == "removed" && !inB[dd])
		if e.NewSrc != wantNewSrc || e.NewDst != wantNewDst {
			fail = vfail("wrong new/lost-workload flags (want src=%v dst=%v): %s", wantNewSrc, wantNewDst, desc)
		}
	}
	for _, s := range srcl {
		for _, dd := range wls {
			if s != dd {
				point(s, dd, 0, 0, false, false)
			}
		}
	}
	for _, s := range wls {
		for _, a := range addrs {
			point(s, "", 0, a, false, true)
			point("", s, a, 0, true, false)
		}
	}
	st.Points(npoints)
	if fail != nil {
		return fail
	}
	// every diff entry must cover some point (no entry about peers that exist nowhere)
	for _, e := range d.Ents {
		for _, p := range []string{e.Src, e.Dst} {
			if _, _, ok := isIPRangePeer(p); !ok && !srcs[p] {
				return vfail("diff entry %s => %s names a peer that is in neither report", e.Src, e.Dst)
			}
		}
	}
	// symmetry
	rev := RunDiff(db, da, DiffOpts{StopOnError: c.StopOnError})
	if rev.Panic != nil || rev.Err != nil {
		return vfail("diff(B,A) fails: %v %v", rev.Panic, rev.Err)
	}
	norm := func(es []DEnt, swap bool) []string {
		var out []string
		for _, e := range es {
			if swap {
				e.C1, e.C2 = e.C2, e.C1
				if e.Typ == "added" {
					e.Typ = "removed"
				} else if e.Typ == "removed" {
					e.Typ = "added"
				}
			}
			out = append(out, fmt.Sprintf("%+v", e))
		}
		sort.Strings(out)
		return out
	}
	if x, y := fmt.Sprint(norm(d.Ents, false)), fmt.Sprint(norm(rev.Ents, true)); x != y {
		return vfail("diff(B,A) is not diff(A,B) with added/removed and the sides swapped:\n%s\n%s", x, y)
	}
	differ := ra.Rel() != rb.Rel()
	nonUnchanged := 0
	for _, e := range d.Ents {
		if e.Typ != "unchanged" {
			nonUnchanged++
		}
	}
	if d.Empty != (nonUnchanged == 0) {
		return vfail("IsEmpty()=%v but the diff has %d added/removed/changed entries", d.Empty, nonUnchanged)
	}
	partDiffer := len(ra.IPs) != len(rb.IPs)
	if !partDiffer {
		for i := range ra.IPs {
			if ra.IPs[i] != rb.IPs[i] {
				partDiffer = true
			}
		}
	}
	if partDiffer {
		st.Class("IP partitions differ")
	}
	if len(wlset) > len(inA) || len(wlset) > len(inB) {
		st.Class("workload added or removed")
	}
	if differ && partDiffer {
		st.NonTrivialCase(c)
	}
	return nil
}

func init() { vRegister("C04", checkC04) }

func TestC04(t *testing.T) { vRunProp(t, "C04", genC04, checkC04) }
