package harness

import (
	"encoding/json"
	"os"
	"path/filepath"
	"testing"
)

func TestDumpC08(t *testing.T) {
	path, out := os.Getenv("VERIF_REPLAY"), os.Getenv("VERIF_DUMP")
	if path == "" || out == "" {
		t.Skip()
	}
	b, _ := os.ReadFile(path)
	var cf vCaseFile
	_ = json.Unmarshal(b, &cf)
	var c C08Case
	if err := json.Unmarshal(cf.Case, &c); err != nil {
		t.Fatal(err)
	}
	WriteDocs(filepath.Join(out, "base"), c.A.Docs(), nil)
	for i, v := range c.Variants {
		WriteDocs(filepath.Join(out, "v"+string(rune('0'+i))), v.W.Docs(), v.L)
	}
}
