package harness

import (
	"fmt"
	"os"
	"sort"
	"strconv"
	"strings"
	"testing"

	"pgregory.net/rapid"

	"github.com/np-guard/netpol-analyzer/pkg/netpol/eval"
)

// ---------- shared: pointwise comparison of a list report with the reference semantics (DESIGN §4.1, §4.2) ----------

func portPoints(w *World, res *ListRes) []int {
	pm := map[int]bool{}
	for _, p := range w.portConstants() {
		pm[p] = true
	}
	for _, cs := range res.Conns {
		for _, x := range cs.Breakpoints() {
			for _, y := range []int{x - 1, x, x + 1} {
				if y >= 1 && y <= 65535 {
					pm[y] = true
				}
			}
		}
	}
	ports := make([]int, 0, len(pm))
	for p := range pm {
		ports = append(ports, p)
	}
	sort.Ints(ports)
	return ports
}

func addrPoints(w *World, res *ListRes) []uint64 {
	var extra []uint64
	for _, r := range res.IPs {
		extra = append(extra, r.Lo, r.Hi)
	}
	return w.addrConstants(extra)
}

type refCmp struct {
	nAllow, nDeny int
	layered       bool // some point had opinions from two layers (C02 non-triviality)
}

// compareWithRef checks "iff" on all ordered workload pairs x B_port x 3 protocols and on all
// (workload,address) pairs for B_addr in both directions.
func compareWithRef(w *World, res *ListRes, st *VStats) (*refCmp, *VFailure) {
	rc := &refCmp{}
	if len(res.Wls) != len(w.Workloads) {
		return rc, vfail("the report has %d workload peers %v, the input has %d workloads", len(res.Wls), res.Wls, len(w.Workloads))
	}
	have := map[string]bool{}
	for _, x := range res.Wls {
		have[x] = true
	}
	for i := range w.Workloads {
		if !have[w.Workloads[i].PeerString()] {
			return rc, vfail("workload %s is not among the reported peers %v", w.Workloads[i].PeerString(), res.Wls)
		}
	}
	ports := portPoints(w, res)
	addrs := addrPoints(w, res)
	var fail *VFailure
	cmp := func(src, dst End, key string) {
		if fail != nil {
			return
		}
		cs := res.Conns[key]
		for _, proto := range protos {
			for _, port := range ports {
				want := w.Allowed(src, dst, proto, port)
				got := cs.Has(proto, port)
				if want {
					rc.nAllow++
				} else {
					rc.nDeny++
				}
				if want != got {
					fail = vfail("MISMATCH %s %s/%d: reference semantics=%v, list report=%v (reported for the pair: %s)", key, proto, port, want, got, cs.Str())
					return
				}
			}
		}
	}
	for i := range w.Workloads {
		for j := range w.Workloads {
			if i == j {
				continue
			}
			cmp(End{W: &w.Workloads[i]}, End{W: &w.Workloads[j]}, peerKey(w.Workloads[i].PeerString(), w.Workloads[j].PeerString()))
		}
		for _, a := range addrs {
			ipn := res.IPPeerOf(a)
			if ipn == "?" {
				return rc, vfail("address %s belongs to no reported IP peer", addrStr(a))
			}
			cmp(End{W: &w.Workloads[i]}, End{Addr: a}, peerKey(w.Workloads[i].PeerString(), ipn))
			cmp(End{Addr: a}, End{W: &w.Workloads[i]}, peerKey(ipn, w.Workloads[i].PeerString()))
		}
	}
	st.Points(rc.nAllow + rc.nDeny)
	if fail != nil {
		return rc, fail
	}
	// nothing may be reported for peers the input does not contain
	for k := range res.Conns {
		s, d := splitKey(k)
		for _, p := range []string{s, d} {
			if strings.Contains(p, "[") && !have[p] {
				return rc, vfail("entry %s names a peer that is not a workload of the input", k)
			}
			if strings.HasPrefix(p, "{") && len(w.Ingresses)+len(w.Routes) == 0 {
				return rc, vfail("entry %s names a fake peer though the input has no Ingress/Route", k)
			}
		}
	}
	return rc, nil
}

func (w *World) anyGoverned() bool {
	for i := range w.NPs {
		for j := range w.Workloads {
			if w.npGoverns(&w.NPs[i], &w.Workloads[j], "Ingress") || w.npGoverns(&w.NPs[i], &w.Workloads[j], "Egress") {
				return true
			}
		}
	}
	return false
}

func worldClasses(w *World, st *VStats) {
	seenNN := map[string]bool{}
	for _, x := range w.Workloads {
		if seenNN[x.Ns+"/"+x.Name] {
			st.Class("two workloads of different kinds share namespace/name")
		}
		seenNN[x.Ns+"/"+x.Name] = true
	}
	seen := map[string]bool{}
	c := func(s string) {
		if !seen[s] {
			seen[s] = true
			st.Class(s)
		}
	}
	for _, n := range w.Namespaces {
		if !n.HasObject {
			c("ns without Namespace object")
		}
	}
	if len(w.OmitNs) > 0 {
		c("omitted metadata.namespace")
	}
	selCl := func(s *Selector) {
		if s == nil {
			return
		}
		for _, e := range s.Exprs {
			c("matchExpressions " + e.Op)
		}
		if _, ok := s.MatchLabels[nsNameKey]; ok {
			c("selector on kubernetes.io/metadata.name")
		}
		for _, e := range s.Exprs {
			if e.Key == nsNameKey {
				c("selector on kubernetes.io/metadata.name")
			}
		}
	}
	for i := range w.NPs {
		p := &w.NPs[i]
		selCl(&p.PodSel)
		if p.PolicyTypes == nil {
			if len(p.Egress) > 0 {
				c("policyTypes defaulted, with egress rules")
			} else {
				c("policyTypes defaulted, no egress rules")
			}
		} else {
			c("policyTypes explicit")
			for _, d := range p.PolicyTypes {
				if d == "Ingress" && len(p.Ingress) == 0 || d == "Egress" && len(p.Egress) == 0 {
					c("declared direction without rules (deny all)")
				}
			}
		}
		for _, rs := range [][]Rule{p.Ingress, p.Egress} {
			for _, r := range rs {
				if len(r.Peers) == 0 {
					c("rule without peers")
				}
				if len(r.Ports) == 0 {
					c("rule without ports")
				}
				for _, pe := range r.Peers {
					selCl(pe.PodSel)
					selCl(pe.NsSel)
					if pe.IPBlock != nil {
						c("ipBlock")
						if len(pe.IPBlock.Except) > 0 {
							c("ipBlock except")
						}
						if len(pe.IPBlock.Except) > 1 {
							c("ipBlock several excepts")
						}
					}
					if pe.PodSel != nil && pe.NsSel != nil {
						c("peer with pod+ns selector")
					}
				}
				for _, pp := range r.Ports {
					switch {
					case pp.PortNam != "":
						c("named port")
					case pp.EndPort != 0:
						c("endPort")
					case pp.PortNum == 0:
						c("protocol-only port")
					default:
						c("numeric port")
					}
				}
			}
		}
	}
	if w.npIPNamed() {
		c("NP_IP_NAMED")
	}
	if len(w.ANPs) > 0 {
		c("has ANP")
	}
	if len(w.ANPs) > 1 {
		c("has >=2 ANPs")
	}
	if w.BANP != nil {
		c("has BANP")
	}
	kinds := map[string]bool{}
	for _, wl := range w.Workloads {
		kinds[wl.Kind] = true
	}
	for k := range kinds {
		c("kind " + k)
	}
}

// ---------- C01 ----------

type C01Case struct {
	W *World
	// L: the documents are laid out over files (sub-directories, .yml/.json, List wrappers, CRLF, empty documents);
	// nil = one plain YAML file
	L *Layout `json:",omitempty"`
}

func genC01(t *rapid.T) *C01Case {
	w := GenWorld(t, GenCfg{OmitNs: rapid.IntRange(0, 3).Draw(t, "omitns") == 0})
	addTwinPod(t, w)
	c := &C01Case{W: w}
	if rapid.IntRange(0, 3).Draw(t, "laidout") == 0 {
		c.L = GenLayout(t, "lay", len(w.Docs()))
	}
	return c
}

// addTwinPod: in a sixth of the cases a controller-kind workload gets a bare Pod of the same namespace and NAME next to
// it (legal: names are unique per kind; the pods are ns/name and ns/name-1, so nothing collides). They are two
// workloads, each with its own connections - also with each other.
func addTwinPod(t *rapid.T, w *World) {
	var cands []int
	for i, x := range w.Workloads {
		if x.Kind == "Pod" || isOwned(x.Kind) || strings.HasSuffix(x.Name, "-1") {
			continue
		}
		ok := true
		for _, y := range w.Workloads {
			// no other workload may share the (ns, name) already
			if y.Ns == x.Ns && y.Name == x.Name && y.Kind != x.Kind {
				ok = false
			}
		}
		if ok {
			cands = append(cands, i)
		}
	}
	if len(cands) == 0 || rapid.IntRange(0, 3).Draw(t, "twin") != 0 {
		return
	}
	x := w.Workloads[cands[rapid.IntRange(0, len(cands)-1).Draw(t, "twinof")]]
	tw := genWorkload(t, "twinwl", x.Ns, &GenCfg{})
	tw.Name, tw.Kind = x.Name, "Pod"
	w.Workloads = append(w.Workloads, tw)
}

// listOrDeviation runs list and applies the one documented deviation (named port on an IP destination).
// ok=false with nil failure means: the documented fatal error was returned, nothing to compare.
func listOrDeviation(w *World, st *VStats) (res *ListRes, ok bool, f *VFailure) {
	return listOrDeviationL(w, nil, st)
}

func listOrDeviationL(w *World, l *Layout, st *VStats) (res *ListRes, ok bool, f *VFailure) {
	dir := w.WriteLayout(l)
	defer os.RemoveAll(dir)
	if l != nil {
		st.Class("documents laid out over several files / formats")
	}
	res = RunList(dir, ListOpts{})
	if res.Panic != nil {
		return res, false, &VFailure{Msg: fmt.Sprintf("list panicked: %v", res.Panic), Sig: "panic"}
	}
	if res.Err != nil {
		if w.npIPNamed() && strings.Contains(res.Err.Error(), "named port") {
			st.Class("documented named-port-on-IP error")
			return res, false, nil
		}
		return res, false, vfail("list failed on an input it must analyse: %v", res.Err)
	}
	return res, true, nil
}

func checkC01(c *C01Case, st *VStats) *VFailure {
	w := c.W
	worldClasses(w, st)
	res, ok, f := listOrDeviationL(w, c.L, st)
	if f != nil || !ok {
		return f
	}
	if len(res.WF) > 0 {
		return vfail("ill-formed report (C05 predicate): %s", strings.Join(res.WF, "; "))
	}
	rc, f := compareWithRef(w, res, st)
	if f != nil {
		return f
	}
	if len(res.IPs) >= 2 {
		st.Class(">=2 IP peers")
	}
	if w.anyGoverned() && rc.nAllow > 0 && rc.nDeny > 0 {
		st.NonTrivialCase(c)
	}
	return nil
}

func init() { vRegister("C01", checkC01) }

func TestC01(t *testing.T) { vRunProp(t, "C01", genC01, checkC01) }

// ---------- C02 ----------

type C02Case struct {
	W    *World
	Perm []int // permutation of the ANP documents for the order-independence clause
	// Eval: the property is also observed at PolicyEngine.CheckIfAllowed - every question is asked twice, and of two
	// replicas, so that an answer cannot depend on what was asked before
	Eval bool `json:",omitempty"`
}

// addLayeredEgress: a BANP that denies a port range on egress for every pod, next to ANPs of different subjects that
// allow single ports of that range on egress - what the BANP denies differs per source, towards one destination.
func addLayeredEgress(t *rapid.T, w *World) {
	if len(w.Workloads) < 2 {
		return
	}
	all := APeer{Namespaces: &Selector{}}
	proto := rapid.SampledFrom(protos).Draw(t, "leproto")
	deny := ARule{Name: "deny-range", Action: "Deny", Peers: []APeer{all}, HasPorts: true, Ports: []APort{{Kind: "range", Proto: proto, Port: 79, End: 82}}}
	b := AdminPol{Name: "default", Subject: all, Egress: []ARule{deny}}
	if w.BANP != nil && rapid.Bool().Draw(t, "lekeep") {
		w.BANP.Subject = all
		w.BANP.Egress = append([]ARule{deny}, w.BANP.Egress...)
	} else {
		w.BANP = &b
	}
	if rapid.Bool().Draw(t, "ledropnp") {
		w.NPs = nil // no NetworkPolicy governs the sources: the BANP decides what the ANPs leave open
	}
	used := map[int]bool{}
	for i := range w.ANPs {
		used[w.ANPs[i].Priority] = true
	}
	n := rapid.IntRange(1, 3).Draw(t, "lenanp")
	for k := 0; k < n && len(w.ANPs) < 8; k++ {
		l := fmt.Sprintf("le%d", k)
		x := w.Workloads[rapid.IntRange(0, len(w.Workloads)-1).Draw(t, l+"wl")]
		subj := APeer{PodsNs: &Selector{MatchLabels: map[string]string{nsNameKey: x.Ns}}, PodsPod: &Selector{MatchLabels: copyMapS(x.Labels)}}
		if rapid.IntRange(0, 3).Draw(t, l+"nssubj") == 0 {
			subj = APeer{Namespaces: &Selector{MatchLabels: map[string]string{nsNameKey: x.Ns}}}
		}
		prio := rapid.IntRange(0, 1000).Draw(t, l+"prio")
		for used[prio] {
			prio = (prio + 1) % 1001
		}
		used[prio] = true
		r := ARule{Name: "allow-one", Action: rapid.SampledFrom([]string{"Allow", "Allow", "Pass"}).Draw(t, l+"act"), Peers: []APeer{all}, HasPorts: true,
			Ports: []APort{{Kind: "number", Proto: proto, Port: rapid.SampledFrom([]int{79, 80, 81, 82}).Draw(t, l+"port")}}}
		w.ANPs = append(w.ANPs, AdminPol{Name: fmt.Sprintf("le-anp%d", k), Priority: prio, Subject: subj, Egress: []ARule{r}})
	}
}

func genC02(t *rapid.T) *C02Case {
	var w *World
	if rapid.IntRange(0, 5).Draw(t, "withingress") == 0 {
		// Ingress/Route objects next to admin policies: the tool's fake ingress-controller pod is a pod like any other for
		// the layers (an ANP/BANP whose subject covers every namespace governs its egress too)
		w = GenIngressWorld(t, true)
	} else {
		w = GenWorld(t, GenCfg{Admin: true})
	}
	if rapid.IntRange(0, 3).Draw(t, "layeredegress") == 0 {
		addLayeredEgress(t, w)
	}
	idx := make([]int, len(w.ANPs))
	for i := range idx {
		idx[i] = i
	}
	return &C02Case{W: w, Perm: shuffle(t, "anpperm", idx), Eval: rapid.IntRange(0, 3).Draw(t, "eval") == 0}
}

// layered reports whether, for some checked point, at least two policy layers have an opinion.
func (w *World) layered() bool {
	sorted := w.sortedANPs()
	for i := range w.Workloads {
		for j := range w.Workloads {
			if i == j {
				continue
			}
			a, b := &w.Workloads[i], &w.Workloads[j]
			for _, dir := range []string{"Egress", "Ingress"} {
				pod, other := a, b
				dst := b
				if dir == "Ingress" {
					pod, other = b, a
				}
				for _, proto := range protos {
					for _, port := range w.portConstants() {
						n := 0
						for _, ap := range sorted {
							if w.adminVerdict([]*AdminPol{ap}, pod, End{W: other}, dir, proto, port, dst) != "None" {
								n++
							}
						}
						gov, _ := w.npVerdict(pod, End{W: other}, dir, proto, port, End{W: dst})
						if gov {
							n++
						}
						if w.BANP != nil && w.adminVerdict([]*AdminPol{w.BANP}, pod, End{W: other}, dir, proto, port, dst) != "None" {
							n++
						}
						if n >= 2 {
							return true
						}
					}
				}
			}
		}
	}
	return false
}

func checkC02(c *C02Case, st *VStats) *VFailure {
	w := c.W
	worldClasses(w, st)
	res, ok, f := listOrDeviation(w, st)
	if f != nil || !ok {
		return f
	}
	if len(res.WF) > 0 {
		return vfail("ill-formed report (C05 predicate): %s", strings.Join(res.WF, "; "))
	}
	_, f = compareWithRef(w, res, st)
	if f != nil {
		return f
	}
	// the answer is a function of priorities only: permute the ANP documents
	if len(w.ANPs) >= 2 && len(c.Perm) == len(w.ANPs) {
		w2 := w.Clone()
		for i, j := range c.Perm {
			w2.ANPs[i] = w.ANPs[j]
		}
		dir2 := w2.WriteDir()
		r2 := RunList(dir2, ListOpts{})
		os.RemoveAll(dir2)
		if r2.Failed() {
			return vfail("list fails after permuting the ANP documents: %v %v", r2.Err, r2.Panic)
		}
		if r2.Rel() != res.Rel() {
			return vfail("report depends on the order of the ANP documents (perm %v):\n--- original order\n%s\n--- permuted\n%s", c.Perm, res.Rel(), r2.Rel())
		}
		st.Class("ANP documents permuted")
	}
	if len(w.Ingresses)+len(w.Routes) > 0 {
		// the {ingress-controller} lines, against the same layered semantics (C10's comparison)
		if f := checkC10(&C10Case{W: w}, st); f != nil {
			if f.Sig != "ingress-port-number-matches-targetport" {
				return f
			}
			// the recorded finding F-C10-2 (which ports an Ingress designates) is C10's subject, not a matter of the layers
			st.Class("F-C10-2 shape met (left to C10)")
		}
		st.Class("with Ingress/Route objects")
	}
	if c.Eval {
		if f := evalAgreesRepeated(w, res, st); f != nil {
			return f
		}
	}
	if w.layered() {
		st.NonTrivialCase(c)
	}
	return nil
}

// evalAgreesRepeated: CheckIfAllowed on one engine holding the world's objects gives, for every pair of workloads and
// every checked (protocol, port), the verdict of the (already verified) list entry - on the first and on the second
// asking, and for the first and the last replica alike.
func evalAgreesRepeated(w *World, res *ListRes, st *VStats) *VFailure {
	dir := w.WriteDir()
	defer os.RemoveAll(dir)
	pe, err := eval.NewPolicyEngineWithObjects(parseDir(dir))
	if err != nil {
		return vfail("NewPolicyEngineWithObjects fails where list answers: %v", err)
	}
	ports := portPoints(w, res)
	n := 0
	for i := range w.Workloads {
		for j := range w.Workloads {
			if i == j {
				continue
			}
			wi, wj := &w.Workloads[i], &w.Workloads[j]
			if wi.PeerString() == wj.PeerString() {
				continue
			}
			cs := res.Conns[peerKey(wi.PeerString(), wj.PeerString())]
			si, sj := evalPodNames(wi), evalPodNames(wj)
			pairs := [][2]string{{si[0], sj[0]}, {si[0], sj[0]}, {si[len(si)-1], sj[len(sj)-1]}}
			for _, proto := range protos {
				for _, port := range ports {
					want := cs.Has(proto, port)
					for k, pr := range pairs {
						got, err, pan := safeQuery(pe, pr[0], pr[1], proto, strconv.Itoa(port))
						if pan != nil {
							return &VFailure{Msg: fmt.Sprintf("CheckIfAllowed panicked: %s -> %s %s/%d: %v", pr[0], pr[1], proto, port, pan), Sig: "panic"}
						}
						if err != nil {
							return vfail("CheckIfAllowed fails where list answers: %s -> %s %s/%d: %v", pr[0], pr[1], proto, port, err)
						}
						if got != want {
							return vfail("CheckIfAllowed(%s, %s, %s, %d) = %v on asking #%d of this pair of workloads; the list entry %s;%s (verified against the reference semantics) says %v", pr[0], pr[1], proto, port, got, k+1, wi.PeerString(), wj.PeerString(), want)
						}
						n++
					}
				}
			}
		}
	}
	st.Points(n)
	st.Class("observed at CheckIfAllowed too")
	return nil
}

func init() { vRegister("C02", checkC02) }

func TestC02(t *testing.T) { vRunProp(t, "C02", genC02, checkC02) }

func TestReplay(t *testing.T) { vReplay(t) }
