package harness

import (
	"fmt"
	"os"
	"strings"
	"testing"

	"pgregory.net/rapid"
)

// C05: the report is a well-formed, canonical relation (validity predicate evaluated in obs.RunList).

type C05Case struct {
	W        *World
	Exposure bool
	ViaInfos bool
	Focus    string `json:",omitempty"`
	Odd      bool   `json:",omitempty"` // a rule with endPort below port was appended
}

// stressPorts appends rules whose union is (or is nearly) the full set, spelled in non-canonical ways.
func stressPorts(t *rapid.T, w *World) {
	if len(w.NPs) == 0 {
		return
	}
	p := &w.NPs[rapid.IntRange(0, len(w.NPs)-1).Draw(t, "stressnp")]
	var r Rule
	switch rapid.IntRange(0, 4).Draw(t, "stresskind") {
	case 0: // three protocol-only ports in one rule
		r.Ports = []PPort{{Proto: "TCP"}, {Proto: "UDP"}, {Proto: "SCTP"}}
	case 1: // 1..65535 ranges
		r.Ports = []PPort{{Proto: "TCP", PortNum: 1, EndPort: 65535}, {Proto: "UDP", PortNum: 1, EndPort: 65535}, {Proto: "SCTP", PortNum: 1, EndPort: 65535}}
	case 2: // adjacent ranges
		r.Ports = []PPort{{PortNum: 80}, {PortNum: 81}, {PortNum: 82, EndPort: 90}, {PortNum: 79}}
	case 3: // full range in two halves
		r.Ports = []PPort{{Proto: "UDP", PortNum: 1, EndPort: 32767}, {Proto: "UDP", PortNum: 32768, EndPort: 65535}, {Proto: "TCP"}, {Proto: "SCTP"}}
	default: // overlapping ranges
		r.Ports = []PPort{{PortNum: 70, EndPort: 90}, {PortNum: 80, EndPort: 100}, {PortNum: 101}}
	}
	if rapid.Bool().Draw(t, "stressdir") {
		p.Ingress = append(p.Ingress, r)
	} else {
		p.Egress = append(p.Egress, r)
	}
}

// stressOddPorts appends a rule with a port shape the API server would refuse but the tool reads without complaint (an
// endPort below port). The predicate of C05 is about the report, whatever the manifests were: no reference needed.
func stressOddPorts(t *rapid.T, w *World) {
	if len(w.NPs) == 0 {
		return
	}
	p := &w.NPs[rapid.IntRange(0, len(w.NPs)-1).Draw(t, "oddnp")]
	var r Rule
	switch rapid.IntRange(0, 2).Draw(t, "oddkind") {
	case 0:
		r.Ports = []PPort{{PortNum: 9000, EndPort: 8000}}
	case 1:
		r.Ports = []PPort{{PortNum: 9000, EndPort: 8000}, {PortNum: 5432}}
	default:
		r.Ports = []PPort{{PortNum: 8080}, {Proto: "UDP", PortNum: 2, EndPort: 1}}
	}
	if rapid.Bool().Draw(t, "odddir") {
		p.Ingress = append(p.Ingress, r)
	} else {
		p.Egress = append(p.Egress, r)
	}
}

// stressIPs appends a rule with many overlapping / adjacent / boundary blocks.
func stressIPs(t *rapid.T, w *World) {
	if len(w.NPs) == 0 {
		return
	}
	p := &w.NPs[rapid.IntRange(0, len(w.NPs)-1).Draw(t, "stressipnp")]
	pool := []string{"0.0.0.0/32", "0.0.0.1/32", "0.0.0.2/31", "255.255.255.255/32", "255.255.255.254/32", "10.1.2.3/32", "10.1.2.4/32", "10.1.2.0/24", "10.1.3.0/24", "10.0.0.0/8", "11.0.0.0/8", "0.0.0.0/0", "128.0.0.0/1", "127.255.255.255/32"}
	n := rapid.IntRange(2, 6).Draw(t, "stressipn")
	var r Rule
	for i := 0; i < n; i++ {
		r.Peers = append(r.Peers, Peer{IPBlock: &IPBlock{CIDR: rapid.SampledFrom(pool).Draw(t, fmt.Sprintf("stressip%d", i))}})
	}
	if rapid.Bool().Draw(t, "stressipdir") {
		p.Ingress = append(p.Ingress, r)
	} else {
		p.Egress = append(p.Egress, r)
	}
}

func genC05(t *rapid.T) *C05Case {
	c := &C05Case{}
	kind := rapid.IntRange(0, 3).Draw(t, "worldkind")
	switch kind {
	case 0:
		c.W = GenWorld(t, GenCfg{NoNamedRisk: true})
		c.Exposure = rapid.Bool().Draw(t, "exposure")
	case 1:
		c.W = GenWorld(t, GenCfg{Admin: true, NoNamedRisk: true})
	case 2:
		c.W = GenIngressWorld(t, true)
		if rapid.IntRange(0, 3).Draw(t, "reservedpod") == 0 {
			// a real pod that carries the very name and namespace the tool gives its fake Ingress source
			kindR := rapid.SampledFrom([]string{"Pod", "Pod", "Deployment"}).Draw(t, "reservedkind")
			c.W.Namespaces = append(c.W.Namespaces, Ns{Name: "ingress-controller-ns", HasObject: rapid.Bool().Draw(t, "reservednsobj")})
			c.W.Workloads = append(c.W.Workloads, Workload{Ns: "ingress-controller-ns", Name: "ingress-controller", Kind: kindR, Replicas: 1, Labels: map[string]string{"app": "x1"}})
		}
	default:
		c.W = GenWorld(t, GenCfg{NoNamedRisk: true, OmitNs: true})
		c.Exposure = rapid.Bool().Draw(t, "exposure")
	}
	if rapid.Bool().Draw(t, "stressp") {
		stressPorts(t, c.W)
	}
	if rapid.Bool().Draw(t, "stressi") {
		stressIPs(t, c.W)
	}
	if rapid.IntRange(0, 3).Draw(t, "stressodd") == 0 {
		stressOddPorts(t, c.W)
		c.Odd = true
	}
	c.ViaInfos = rapid.IntRange(0, 3).Draw(t, "viainfos") == 0
	if rapid.IntRange(0, 4).Draw(t, "focus") == 0 && len(c.W.Workloads) > 0 {
		wl := c.W.Workloads[rapid.IntRange(0, len(c.W.Workloads)-1).Draw(t, "fw")]
		c.Focus = wl.Name
		if rapid.Bool().Draw(t, "fwns") {
			c.Focus = wl.Ns + "/" + wl.Name
		}
	}
	return c
}

func checkC05(c *C05Case, st *VStats) *VFailure {
	dir := c.W.WriteDir()
	defer os.RemoveAll(dir)
	res := RunList(dir, ListOpts{Exposure: c.Exposure, ViaInfos: c.ViaInfos, Focus: c.Focus})
	if c.Focus != "" {
		st.Class("with focus workload")
	}
	if c.Odd {
		st.Class("a port range with endPort below port (read by the tool, refused by an API server)")
	}
	if res.Panic != nil {
		return &VFailure{Msg: fmt.Sprintf("list panicked: %v", res.Panic), Sig: "panic"}
	}
	if res.Err != nil {
		st.Class("skip: list returned an error")
		return nil
	}
	if c.Exposure {
		st.Class("exposure on")
	}
	if c.ViaInfos {
		st.Class("via ConnlistFromResourceInfos")
	}
	if len(c.W.ANPs) > 0 || c.W.BANP != nil {
		st.Class("admin policies")
	}
	if len(c.W.Ingresses)+len(c.W.Routes) > 0 {
		st.Class("ingress/route objects")
	}
	if len(res.WF) > 0 {
		return vfail("ill-formed report: %s", strings.Join(res.WF, "; "))
	}
	if res.NPeers == 0 && len(res.Conns) != 0 {
		return vfail("entries reported although no peers were returned")
	}
	nontrivial := len(res.IPs) >= 2
	for _, cs := range res.Conns {
		if !cs.All {
			n := 0
			for _, rs := range cs.M {
				n += len(rs)
				for _, r := range rs {
					if r.Lo != r.Hi {
						n++
					}
				}
			}
			if n >= 2 {
				nontrivial = true
			}
		}
	}
	st.Points(len(res.Conns))
	if len(res.IPs) >= 3 {
		st.Class(">=3 IP peers")
	}
	if nontrivial {
		st.NonTrivialCase(c)
	}
	return nil
}

func init() { vRegister("C05", checkC05) }

func TestC05(t *testing.T) { vRunProp(t, "C05", genC05, checkC05) }
