#!/bin/sh
# Sensitivity self-test (not registered in MANIFEST): run the quick tier of the given properties against a mutated
# checkout of the repository, without touching /repo, the committed evidence or the replays.
#   ./selftest.sh <checkout-with-the-change-applied> <ID> [<ID> ...]
# exit status of each check is printed; 1 = the mutant was caught.
repo="$1"; shift
out=$(mktemp -d /tmp/verif-selftest-XXXXXX)
for id in "$@"; do
  VERIF_REPO="$repo" VERIF_OUTDIR="$out" "$(dirname "$0")/check" "$id" --tier "${VERIF_TIER:-quick}" > "$out/$id.log" 2>&1
  rc=$?
  echo "selftest repo=$repo property=$id exit=$rc $(grep -c '^VIOLATION' "$out/$id.log") violation line(s)"
  grep -m1 -A3 '^---- violation' "$out/$id.log" | cut -c1-400
done
echo "logs and replays: $out"
