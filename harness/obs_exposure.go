package harness

import (
	"fmt"
	"strconv"
	"strings"

	metav1 "k8s.io/apimachinery/pkg/apis/meta/v1"

	"github.com/np-guard/netpol-analyzer/pkg/netpol/connlist"
)

// XConn is an exposure connection: numeric ranges plus named ports per protocol.
type XConn struct {
	All   bool
	Num   map[string][]Rng
	Names map[string][]string
	Raw   string
	// APINum / APIAll: the numbered ports as returned by ProtocolsAndPortsMap() / IsAllConnections() (nil when the value
	// was only parsed from text); the text rendering must agree with them
	APINum map[string][]Rng `json:",omitempty"`
	APIAll bool             `json:",omitempty"`
}

// TextAgreesWithAPI: the numbered ports of the printed form equal those of the returned value.
func (x *XConn) TextAgreesWithAPI() (bool, string) {
	if x.APINum == nil {
		return true, ""
	}
	if x.All != x.APIAll {
		return false, fmt.Sprintf("printed %q but IsAllConnections()=%v", x.Raw, x.APIAll)
	}
	if x.All {
		return true, ""
	}
	a, b := map[string]string{}, map[string]string{}
	for p, rs := range x.Num {
		if len(rs) > 0 {
			a[p] = fmt.Sprint(rs)
		}
	}
	for p, rs := range x.APINum {
		if len(rs) > 0 {
			b[p] = fmt.Sprint(rs)
		}
	}
	if fmt.Sprint(a) != fmt.Sprint(b) {
		return false, fmt.Sprintf("printed %q, numbered ports by protocol %v, but ProtocolsAndPortsMap() holds %v", x.Raw, a, b)
	}
	return true, ""
}

// ParseConn parses the tool's connection string ("All Connections", "TCP 80,90-100,http,UDP 53", ...).
func ParseConn(s string) *XConn {
	x := &XConn{Num: map[string][]Rng{}, Names: map[string][]string{}, Raw: s}
	if s == "All Connections" {
		x.All = true
		return x
	}
	if s == "No Connections" {
		return x
	}
	cur := ""
	for _, tok := range strings.Split(s, ",") {
		for _, p := range protos {
			if strings.HasPrefix(tok, p+" ") {
				cur = p
				tok = strings.TrimPrefix(tok, p+" ")
			}
		}
		if tok == "" {
			continue
		}
		if lohi := strings.Split(tok, "-"); len(lohi) == 2 {
			lo, e1 := strconv.Atoi(lohi[0])
			hi, e2 := strconv.Atoi(lohi[1])
			if e1 == nil && e2 == nil {
				x.Num[cur] = append(x.Num[cur], Rng{lo, hi})
				continue
			}
		}
		if n, err := strconv.Atoi(tok); err == nil {
			x.Num[cur] = append(x.Num[cur], Rng{n, n})
			continue
		}
		x.Names[cur] = append(x.Names[cur], tok)
	}
	return x
}

// Has reports membership of (proto,port) where names resolve on pod `res`.
func (x *XConn) Has(proto string, port int, res *Workload) bool {
	if x.All {
		return true
	}
	for _, r := range x.Num[proto] {
		if port >= r.Lo && port <= r.Hi {
			return true
		}
	}
	for _, n := range x.Names[proto] {
		for _, cp := range res.Ports {
			if cp.Name == n {
				if protoOr(cp.Proto) == proto && cp.Number == port {
					return true
				}
				break
			}
		}
	}
	return false
}

func (x *XConn) Breakpoints() []int {
	var res []int
	for _, rs := range x.Num {
		for _, r := range rs {
			res = append(res, r.Lo, r.Hi)
		}
	}
	return res
}

type XEntry struct {
	Entire bool
	Ns     Selector
	Pod    Selector
	Conn   *XConn
}

type XPeer struct {
	Peer           string
	ProtIn, ProtEg bool
	In, Eg         []XEntry
}

func fromK(ls metav1.LabelSelector) Selector {
	s := Selector{MatchLabels: ls.MatchLabels}
	for _, e := range ls.MatchExpressions {
		s.Exprs = append(s.Exprs, Expr{Key: e.Key, Op: string(e.Operator), Values: e.Values})
	}
	return s
}

func exposedPeers(ca *connlist.ConnlistAnalyzer) []XPeer {
	var res []XPeer
	for _, ep := range ca.ExposedPeers() {
		p := XPeer{Peer: ep.ExposedPeer().String(), ProtIn: ep.IsProtectedByIngressNetpols(), ProtEg: ep.IsProtectedByEgressNetpols()}
		conv := func(ds []connlist.XgressExposureData) (out []XEntry) {
			for _, d := range ds {
				pc := d.PotentialConnectivity()
				x := ParseConn(fmt.Sprint(pc))
				x.APIAll = pc.IsAllConnections()
				x.APINum = map[string][]Rng{}
				for proto, prs := range pc.ProtocolsAndPortsMap() {
					for _, pr := range prs {
						x.APINum[string(proto)] = append(x.APINum[string(proto)], Rng{int(pr.Start()), int(pr.End())})
					}
				}
				out = append(out, XEntry{Entire: d.IsExposedToEntireCluster(), Ns: fromK(d.NamespaceLabels()), Pod: fromK(d.PodLabels()), Conn: x})
			}
			return
		}
		p.In = conv(ep.IngressExposure())
		p.Eg = conv(ep.EgressExposure())
		res = append(res, p)
	}
	return res
}
