package harness

import (
	"encoding/csv"
	"encoding/json"
	"fmt"
	"regexp"
	"sort"
	"strings"
)

// ---------- parsers for every output format (DESIGN §4.4) ----------

// Triple is one encoded (src, dst, connection) entry.
type Triple struct{ Src, Dst, Conn string }

// XTriple is one encoded exposure entry: workload W, direction, peer designation (normalised), connection.
type XTriple struct{ W, Dir, Peer, Conn string }

type ParsedList struct {
	Conns       []Triple
	Exposure    []XTriple // potential-peer and entire-cluster entries
	ExposureIPs []XTriple // IP entries repeated in the exposure sections (tabular formats only)
	Unprotected []string  // "W is not protected on Dir" lines (txt only)
	HasExposure bool
}

func sortTriples(ts []Triple) []Triple {
	sort.Slice(ts, func(i, j int) bool { return fmt.Sprint(ts[i]) < fmt.Sprint(ts[j]) })
	return ts
}
func sortXTriples(ts []XTriple) []XTriple {
	sort.Slice(ts, func(i, j int) bool { return fmt.Sprint(ts[i]) < fmt.Sprint(ts[j]) })
	return ts
}

// connString renders a connection from API values the way every format spells it.
func connString(all bool, m map[string][]Rng) string {
	if all {
		return "All Connections"
	}
	if len(m) == 0 {
		return "No Connections"
	}
	var ps []string
	for p, rs := range m {
		var xs []string
		for _, r := range rs {
			if r.Lo == r.Hi {
				xs = append(xs, fmt.Sprint(r.Lo))
			} else {
				xs = append(xs, fmt.Sprintf("%d-%d", r.Lo, r.Hi))
			}
		}
		ps = append(ps, p+" "+strings.Join(xs, ","))
	}
	sort.Strings(ps)
	return strings.Join(ps, ",")
}

func (c *CSet) ConnString() string {
	if c == nil {
		return "No Connections"
	}
	return connString(c.All, c.M)
}

// normDesignation maps a potential-peer designation of a tabular format ("ns/[pod with {..}]",
// "[namespace with {..}]/[all pods]", "entire-cluster") to a format-independent form.
func normDesignation(s string) string {
	if s == "entire-cluster" {
		return s
	}
	idx := strings.LastIndex(s, "/[")
	if idx < 0 || !strings.HasSuffix(s, "]") {
		return "?unparsed designation?" + s
	}
	ns, pod := s[:idx], s[idx+2:len(s)-1]
	if strings.HasPrefix(ns, "[") && strings.HasSuffix(ns, "]") {
		ns = ns[1 : len(ns)-1]
	}
	return ns + " || " + pod
}

// normDotDesignation maps a dot node id of a potential peer ("<pod>_in_<ns>") to the same form.
func normDotDesignation(s string) string {
	if s == "entire-cluster" {
		return s
	}
	idx := strings.Index(s, "_in_")
	if idx < 0 {
		return "?unparsed dot designation?" + s
	}
	return s[idx+4:] + " || " + s[:idx]
}

func isIPPeerStr(s string) bool {
	_, _, ok := isIPRangePeer(s)
	return ok
}

var dotEdge = regexp.MustCompile(`^\t"((?:[^"\\]|\\.)*)" -> "((?:[^"\\]|\\.)*)" \[label="((?:[^"\\]|\\.)*)" color="([^"]*)" fontcolor="([^"]*)" weight=([0-9.]+)( style=dashed)?\]$`)

func addExposureRow(p *ParsedList, dir, w, peer, conn string) {
	if isIPPeerStr(peer) {
		p.ExposureIPs = append(p.ExposureIPs, XTriple{w, dir, peer, conn})
	} else {
		p.Exposure = append(p.Exposure, XTriple{w, dir, normDesignation(peer), conn})
	}
}

var txtExposureLine = regexp.MustCompile(`^(\S.*?) *\t(=>|<=) \t(.*)$`)

// ParseList parses the output of ConnectionsListToString in the given format.
func ParseList(format, out string) (*ParsedList, error) {
	p := &ParsedList{}
	switch format {
	case "txt":
		section := "conns"
		for _, l := range strings.Split(out, "\n") {
			switch {
			case l == "":
				continue
			case l == "Exposure Analysis Result:":
				p.HasExposure = true
				section = "exp"
				continue
			case l == "Egress Exposure:":
				section = "Egress"
				continue
			case l == "Ingress Exposure:":
				section = "Ingress"
				continue
			case l == "Workloads not protected by network policies:":
				section = "unprot"
				continue
			}
			switch section {
			case "conns":
				i := strings.Index(l, " => ")
				j := strings.LastIndex(l, " : ")
				if i < 0 || j < i {
					return nil, fmt.Errorf("bad txt line %q", l)
				}
				p.Conns = append(p.Conns, Triple{l[:i], l[i+4 : j], l[j+3:]})
			case "Egress", "Ingress":
				m := txtExposureLine.FindStringSubmatch(l)
				if m == nil {
					return nil, fmt.Errorf("bad txt exposure line %q", l)
				}
				if (section == "Egress") != (m[2] == "=>") {
					return nil, fmt.Errorf("arrow %s in %s exposure section: %q", m[2], section, l)
				}
				j := strings.LastIndex(m[3], " : ")
				if j < 0 {
					return nil, fmt.Errorf("bad txt exposure line %q", l)
				}
				addExposureRow(p, section, m[1], m[3][:j], m[3][j+3:])
			case "unprot":
				p.Unprotected = append(p.Unprotected, l)
			default:
				return nil, fmt.Errorf("unexpected txt line %q in section %s", l, section)
			}
		}
	case "json":
		type item struct{ Src, Dst, Conn string }
		var xs []item
		if err := json.Unmarshal([]byte(out), &xs); err == nil {
			for _, x := range xs {
				p.Conns = append(p.Conns, Triple{x.Src, x.Dst, x.Conn})
			}
			break
		}
		var obj struct {
			Conns []item `json:"connlist_results"`
			Exp   *struct {
				Eg  []item `json:"egress_exposure"`
				Ing []item `json:"ingress_exposure"`
			} `json:"exposure_results"`
		}
		dec := json.NewDecoder(strings.NewReader(out))
		dec.DisallowUnknownFields()
		if err := dec.Decode(&obj); err != nil {
			return nil, fmt.Errorf("bad json output: %v", err)
		}
		for _, x := range obj.Conns {
			p.Conns = append(p.Conns, Triple{x.Src, x.Dst, x.Conn})
		}
		if obj.Exp != nil {
			p.HasExposure = true
			for _, x := range obj.Exp.Eg {
				addExposureRow(p, "Egress", x.Src, x.Dst, x.Conn)
			}
			for _, x := range obj.Exp.Ing {
				addExposureRow(p, "Ingress", x.Dst, x.Src, x.Conn)
			}
		}
	case "csv":
		r := csv.NewReader(strings.NewReader(out))
		r.FieldsPerRecord = -1
		rows, err := r.ReadAll()
		if err != nil {
			return nil, err
		}
		if len(rows) == 0 || strings.Join(rows[0], ",") != "src,dst,conn" {
			return nil, fmt.Errorf("bad csv header %v", rows)
		}
		section := "conns"
		for _, row := range rows[1:] {
			if len(row) != 3 {
				return nil, fmt.Errorf("bad csv row %q", row)
			}
			switch {
			case row[0] == "Exposure Analysis Result:" && row[1] == "" && row[2] == "":
				p.HasExposure = true
				section = "exp"
			case row[0] == "Egress Exposure:" && row[1] == "":
				section = "EgressHdr"
			case row[0] == "Ingress Exposure:" && row[1] == "":
				section = "IngressHdr"
			case section == "EgressHdr":
				if strings.Join(row, ",") != "src,dst,conn" {
					return nil, fmt.Errorf("bad csv egress exposure header %q", row)
				}
				section = "Egress"
			case section == "IngressHdr":
				if strings.Join(row, ",") != "dst,src,conn" {
					return nil, fmt.Errorf("bad csv ingress exposure header %q", row)
				}
				section = "Ingress"
			case section == "conns":
				p.Conns = append(p.Conns, Triple{row[0], row[1], row[2]})
			case section == "Egress" || section == "Ingress":
				addExposureRow(p, section, row[0], row[1], row[2])
			default:
				return nil, fmt.Errorf("unexpected csv row %q in section %s", row, section)
			}
		}
	case "md":
		ls := strings.Split(strings.TrimRight(out, "\n"), "\n")
		if len(ls) < 2 || ls[0] != "| src | dst | conn |" || ls[1] != "|-----|-----|------|" {
			return nil, fmt.Errorf("bad md header %q", ls)
		}
		section := "conns"
		for i := 2; i < len(ls); i++ {
			l := ls[i]
			switch {
			case l == "":
				continue
			case l == "## Exposure Analysis Result:":
				p.HasExposure = true
				section = "exp"
				continue
			case l == "### Egress Exposure:" || l == "### Ingress Exposure:":
				section = "Egress"
				want := "| src | dst | conn |"
				if strings.Contains(l, "Ingress") {
					section = "Ingress"
					want = "| dst | src | conn |"
				}
				if i+2 >= len(ls)+1 || ls[i+1] != want || ls[i+2] != "|-----|-----|------|" {
					return nil, fmt.Errorf("bad md %s exposure table header after %q", section, l)
				}
				i += 2
				continue
			}
			f := strings.Split(l, " | ")
			if len(f) != 3 || !strings.HasPrefix(f[0], "| ") || !strings.HasSuffix(f[2], " |") {
				return nil, fmt.Errorf("bad md line %q", l)
			}
			a, b, c := strings.TrimPrefix(f[0], "| "), f[1], strings.TrimSuffix(f[2], " |")
			switch section {
			case "conns":
				p.Conns = append(p.Conns, Triple{a, b, c})
			case "Egress", "Ingress":
				addExposureRow(p, section, a, b, c)
			default:
				return nil, fmt.Errorf("unexpected md line %q in section %s", l, section)
			}
		}
	case "dot":
		if !strings.HasPrefix(out, "digraph {") || !strings.HasSuffix(strings.TrimRight(out, "\n"), "}") {
			return nil, fmt.Errorf("not a dot graph")
		}
		for _, l := range strings.Split(out, "\n") {
			m := dotEdge.FindStringSubmatch(l)
			if m == nil {
				if strings.Contains(l, `" -> "`) {
					return nil, fmt.Errorf("unparsed dot edge %q", l)
				}
				continue
			}
			if m[7] == "" {
				p.Conns = append(p.Conns, Triple{m[1], m[2], m[3]})
				continue
			}
			p.HasExposure = true
			// dashed = exposure edge; ingress exposure edges point at the workload
			switch m[4] {
			case "darkorange2":
				p.Exposure = append(p.Exposure, XTriple{m[2], "Ingress", normDotDesignation(m[1]), m[3]})
			case "darkorange4":
				p.Exposure = append(p.Exposure, XTriple{m[1], "Egress", normDotDesignation(m[2]), m[3]})
			default:
				return nil, fmt.Errorf("dashed edge with unknown colour %q", l)
			}
		}
	default:
		return nil, fmt.Errorf("unknown format %s", format)
	}
	sortTriples(p.Conns)
	sortXTriples(p.Exposure)
	sortXTriples(p.ExposureIPs)
	sort.Strings(p.Unprotected)
	return p, nil
}

// ---------- diff formats ----------

type DTuple struct{ Typ, Src, Dst, C1, C2, Info string }

func sortDTuples(ts []DTuple) []DTuple {
	sort.Slice(ts, func(i, j int) bool { return fmt.Sprint(ts[i]) < fmt.Sprint(ts[j]) })
	return ts
}

// the two sides are named dir1/dir2 (the harness passes WithArgNames("dir1","dir2"), as the CLI does)
var txtDiffLine = regexp.MustCompile(`^diff-type: (\w+), source: (.*), destination: (.*), dir1: (.*), dir2: (.*?)(, workloads-diff-info: (.*))?$`)
var changedLbl = regexp.MustCompile(`^(.*) \(dir1: (.*)\)$`)

func ParseDiff(format, out string) ([]DTuple, error) {
	var ts []DTuple
	switch format {
	case "txt":
		ls := strings.Split(strings.TrimRight(out, "\n"), "\n")
		if ls[0] != "Connectivity diff:" {
			return nil, fmt.Errorf("bad header %q", ls[0])
		}
		for _, l := range ls[1:] {
			m := txtDiffLine.FindStringSubmatch(l)
			if m == nil {
				return nil, fmt.Errorf("bad txt diff line %q", l)
			}
			ts = append(ts, DTuple{m[1], m[2], m[3], m[4], m[5], m[7]})
		}
	case "csv":
		rows, err := csv.NewReader(strings.NewReader(out)).ReadAll()
		if err != nil {
			return nil, err
		}
		if len(rows) == 0 || strings.Join(rows[0], ",") != "diff-type,source,destination,dir1,dir2,workloads-diff-info" {
			return nil, fmt.Errorf("bad csv diff header %q", rows)
		}
		for _, r := range rows[1:] {
			if len(r) != 6 {
				return nil, fmt.Errorf("bad csv diff row %q", r)
			}
			ts = append(ts, DTuple{r[0], r[1], r[2], r[3], r[4], r[5]})
		}
	case "md":
		ls := strings.Split(strings.TrimRight(out, "\n"), "\n")
		if len(ls) < 2 || ls[0] != "| diff-type | source | destination | dir1 | dir2 | workloads-diff-info |" {
			return nil, fmt.Errorf("bad md diff header %q", ls[0])
		}
		for _, l := range ls[2:] {
			f := strings.Split(strings.TrimSuffix(strings.TrimPrefix(l, "| "), " |"), " | ")
			if len(f) == 5 { // empty info column
				f = append(f, "")
			}
			if len(f) != 6 {
				return nil, fmt.Errorf("bad md diff line %q -> %q", l, f)
			}
			ts = append(ts, DTuple{f[0], f[1], f[2], f[3], f[4], strings.TrimSpace(f[5])})
		}
	case "dot":
		colors := map[string]string{"grey": "unchanged", "magenta": "changed", "red2": "removed", "#008000": "added"}
		for _, l := range strings.Split(out, "\n") {
			m := dotEdge.FindStringSubmatch(l)
			if m == nil {
				if strings.Contains(l, `" -> "`) && !strings.Contains(l, "dict_box") && !strings.Contains(l, "legend") {
					return nil, fmt.Errorf("unparsed dot diff edge %q", l)
				}
				continue
			}
			typ := colors[m[4]]
			d := DTuple{Typ: typ, Src: m[1], Dst: m[2]}
			switch typ {
			case "unchanged":
				d.C1, d.C2 = m[3], m[3]
			case "changed":
				mm := changedLbl.FindStringSubmatch(m[3])
				if mm == nil {
					return nil, fmt.Errorf("bad changed label %q", m[3])
				}
				d.C2, d.C1 = mm[1], mm[2]
			case "removed":
				d.C1, d.C2 = m[3], "No Connections"
			case "added":
				d.C1, d.C2 = "No Connections", m[3]
			default:
				return nil, fmt.Errorf("unknown edge colour %q in %q", m[4], l)
			}
			ts = append(ts, d)
		}
	default:
		return nil, fmt.Errorf("unknown diff format %s", format)
	}
	return sortDTuples(ts), nil
}
