package harness

import (
	"encoding/json"
	"fmt"
	"sort"
	"strings"
)

// ---------- world model (harness-owned, no k8s types) ----------

type Expr struct {
	Key    string   `json:",omitempty"`
	Op     string   `json:",omitempty"` // In NotIn Exists DoesNotExist
	Values []string `json:",omitempty"`
}
type Selector struct {
	MatchLabels map[string]string `json:",omitempty"`
	Exprs       []Expr            `json:",omitempty"`
}
type Ns struct {
	Name      string            `json:",omitempty"`
	Labels    map[string]string `json:",omitempty"`
	HasObject bool
	// ExplicitNameLabel: the Namespace object carries the (correct) kubernetes.io/metadata.name label itself
	ExplicitNameLabel bool `json:",omitempty"`
}
type CPort struct {
	Name   string `json:",omitempty"`
	Number int    `json:",omitempty"`
	Proto  string `json:",omitempty"` // TCP UDP SCTP ("" => TCP)
}

// Kind is one of Pod Deployment ReplicaSet StatefulSet DaemonSet Job CronJob ReplicationController,
// or "Owned:<OwnerKind>" for bare pods sharing one controller ownerReference ("Owned2:<OwnerKind>": the pods carry a
// second, non-controller ownerReference listed before the controller one).
type Workload struct {
	Ns, Name, Kind string
	Replicas       int               // -1 => field absent
	Labels         map[string]string `json:",omitempty"`
	Ports          []CPort           `json:",omitempty"`
	// SplitContainers: the container ports are spread over two containers of the pod template
	SplitContainers bool `json:",omitempty"`
	// MixedOwnerAPI: (bare pods of a controller only) the ownerReferences of the pods spell the controller's apiVersion
	// differently (apps/v1, apps/v1beta2 - as after an upgrade); it is one owner all the same
	MixedOwnerAPI bool `json:",omitempty"`
	// NCont: the container ports are dealt round-robin over this many containers (0 = see SplitContainers)
	NCont int `json:",omitempty"`
	// Helper: a container that declares no ports in the pod template: 1 = listed first, 2 = listed last, 3 = an init
	// container (0 = none). Irrelevant to connectivity.
	Helper int `json:",omitempty"`
	// ObjLabels: labels on the controller object's own metadata (not the pod template) - irrelevant to connectivity
	ObjLabels map[string]string `json:",omitempty"`
	// ExportedOwner: the controller object itself carries a controller ownerReference to an owner that is not in the input
	ExportedOwner bool `json:",omitempty"`
}
type IPBlock struct {
	CIDR   string   `json:",omitempty"`
	Except []string `json:",omitempty"`
}
type Peer struct {
	PodSel, NsSel *Selector
	IPBlock       *IPBlock `json:",omitempty"`
}
type PPort struct {
	Proto   string `json:",omitempty"` // "" => absent
	PortNum int    `json:",omitempty"` // 0 => absent
	PortNam string `json:",omitempty"`
	EndPort int    `json:",omitempty"` // 0 => absent
}
type Rule struct {
	Peers []Peer
	Ports []PPort `json:",omitempty"`
}
type NetPol struct {
	Ns, Name string
	// EmptyIngress / EmptyEgress: a direction without rules is written as an explicit empty list (`egress: []`)
	// instead of being omitted - same meaning
	EmptyIngress bool     `json:",omitempty"`
	EmptyEgress  bool     `json:",omitempty"`
	PodSel       Selector `json:",omitempty"`
	PolicyTypes  []string `json:",omitempty"` // nil => absent
	Ingress      []Rule   `json:",omitempty"`
	Egress       []Rule   `json:",omitempty"`
}
type APort struct {
	Kind      string `json:",omitempty"` // number range named
	Proto     string `json:",omitempty"`
	Port, End int
	Name      string `json:",omitempty"`
}
type APeer struct {
	Namespaces *Selector `json:",omitempty"`
	PodsNs     *Selector `json:",omitempty"`
	PodsPod    *Selector `json:",omitempty"`
}
type ARule struct {
	Name, Action string
	Peers        []APeer `json:",omitempty"`
	Ports        []APort `json:",omitempty"`
	HasPorts     bool    `json:",omitempty"`
}
type AdminPol struct {
	Name     string  `json:",omitempty"`
	Priority int     `json:",omitempty"`
	Subject  APeer   `json:",omitempty"`
	Ingress  []ARule `json:",omitempty"`
	Egress   []ARule `json:",omitempty"`
}
type SvcPort struct {
	Name       string `json:",omitempty"`
	Port       int    `json:",omitempty"`
	Proto      string `json:",omitempty"` // "" => TCP
	TargetNum  int    `json:",omitempty"`
	TargetName string `json:",omitempty"`
}
type Svc struct {
	Ns, Name string
	Selector map[string]string `json:",omitempty"`
	Ports    []SvcPort         `json:",omitempty"`
}
type Backend struct {
	Svc      string `json:",omitempty"`
	PortNum  int    `json:",omitempty"`
	PortName string `json:",omitempty"`
}
type Ing struct {
	Ns, Name string
	// HostStyle: which hosts, paths and path types the rules are written with (render.go: ingHosts, ingPaths) - none of
	// them decides which workloads the Ingress reaches
	HostStyle int         `json:",omitempty"`
	Default   *Backend    `json:",omitempty"`
	Rules     [][]Backend `json:",omitempty"` // rules -> paths
}
type Route struct {
	Ns, Name string
	To       string   `json:",omitempty"`
	Alt      []string `json:",omitempty"`
	// Kinds: the kind of the target references, parallel to [To, Alt...]: "" = Service written out, "omit" = field
	// omitted (the API defaults it to Service), anything else = that literal (not a Service: the reference is ignored)
	Kinds      []string `json:",omitempty"`
	TargetNum  int      `json:",omitempty"`
	TargetName string   `json:",omitempty"`
}

// World is the harness-owned description of one input (no k8s types).
type World struct {
	Namespaces []Ns       `json:",omitempty"`
	Workloads  []Workload `json:",omitempty"`
	NPs        []NetPol   `json:",omitempty"`
	ANPs       []AdminPol `json:",omitempty"`
	BANP       *AdminPol  `json:",omitempty"`
	Services   []Svc      `json:",omitempty"`
	Ingresses  []Ing      `json:",omitempty"`
	Routes     []Route    `json:",omitempty"`
	// OmitNs lists "kind/name" of documents rendered without metadata.namespace (they are in "default")
	OmitNs map[string]bool `json:",omitempty"`
}

const nsNameKey = "kubernetes.io/metadata.name"

func (w *World) nsLabels(ns string) map[string]string {
	res := map[string]string{}
	for _, n := range w.Namespaces {
		if n.Name == ns && n.HasObject {
			for k, v := range n.Labels {
				res[k] = v
			}
		}
	}
	res[nsNameKey] = ns
	return res
}

// ---------- reference semantics ----------

func selMatch(s *Selector, labels map[string]string) bool {
	for k, v := range s.MatchLabels {
		if lv, ok := labels[k]; !ok || lv != v {
			return false
		}
	}
	for _, e := range s.Exprs {
		lv, ok := labels[e.Key]
		in := false
		for _, v := range e.Values {
			if ok && v == lv {
				in = true
			}
		}
		switch e.Op {
		case "In":
			if !in {
				return false
			}
		case "NotIn":
			if in {
				return false
			}
		case "Exists":
			if !ok {
				return false
			}
		case "DoesNotExist":
			if ok {
				return false
			}
		}
	}
	return true
}

func parseCIDR(c string) (lo, hi uint64) {
	var a, b, cc, d, n int
	fmt.Sscanf(c, "%d.%d.%d.%d/%d", &a, &b, &cc, &d, &n)
	ip := uint64(a)<<24 | uint64(b)<<16 | uint64(cc)<<8 | uint64(d)
	size := uint64(1) << uint(32-n)
	lo = ip &^ (size - 1)
	hi = lo + size - 1
	return
}
func inBlock(addr uint64, b *IPBlock) bool {
	lo, hi := parseCIDR(b.CIDR)
	if addr < lo || addr > hi {
		return false
	}
	for _, e := range b.Except {
		elo, ehi := parseCIDR(e)
		if addr >= elo && addr <= ehi {
			return false
		}
	}
	return true
}

// an end point: either a workload (pod) or an address
type End struct {
	W    *Workload `json:",omitempty"`
	Addr uint64    `json:",omitempty"`
}

func dirAffected(p *NetPol, dir string) bool {
	if p.PolicyTypes != nil {
		for _, d := range p.PolicyTypes {
			if d == dir {
				return true
			}
		}
		return false
	}
	if dir == "Ingress" {
		return true
	}
	return len(p.Egress) > 0
}
func (w *World) npGoverns(p *NetPol, pod *Workload, dir string) bool {
	return p.Ns == pod.Ns && selMatch(&p.PodSel, pod.Labels) && dirAffected(p, dir)
}
func (w *World) npPeerMatch(p *NetPol, peer *Peer, other End) bool {
	if peer.IPBlock != nil {
		return other.W == nil && inBlock(other.Addr, peer.IPBlock)
	}
	if other.W == nil {
		return false
	}
	if peer.NsSel == nil {
		if other.W.Ns != p.Ns {
			return false
		}
	} else if !selMatch(peer.NsSel, w.nsLabels(other.W.Ns)) {
		return false
	}
	if peer.PodSel == nil {
		return true
	}
	return selMatch(peer.PodSel, other.W.Labels)
}
func protoOr(p string) string {
	if p == "" {
		return "TCP"
	}
	return p
}
func npPortMatch(pp *PPort, proto string, port int, dst End) bool {
	rp := protoOr(pp.Proto)
	if rp != proto {
		return false
	}
	if pp.PortNum == 0 && pp.PortNam == "" {
		return true
	}
	if pp.PortNam != "" {
		if dst.W == nil {
			return false
		}
		for _, cp := range dst.W.Ports {
			if cp.Name == pp.PortNam {
				return protoOr(cp.Proto) == rp && cp.Number == port
			}
		}
		return false
	}
	end := pp.PortNum
	if pp.EndPort != 0 {
		end = pp.EndPort
	}
	return port >= pp.PortNum && port <= end
}
func (w *World) npVerdict(pod *Workload, other End, dir string, proto string, port int, dst End) (governed, allowed bool) {
	for i := range w.NPs {
		p := &w.NPs[i]
		if !w.npGoverns(p, pod, dir) {
			continue
		}
		governed = true
		rules := p.Ingress
		if dir == "Egress" {
			rules = p.Egress
		}
		for ri := range rules {
			r := &rules[ri]
			pm := len(r.Peers) == 0
			for pi := range r.Peers {
				if w.npPeerMatch(p, &r.Peers[pi], other) {
					pm = true
				}
			}
			if !pm {
				continue
			}
			if len(r.Ports) == 0 {
				allowed = true
			}
			for qi := range r.Ports {
				if npPortMatch(&r.Ports[qi], proto, port, dst) {
					allowed = true
				}
			}
		}
	}
	return
}
func (w *World) apeerMatch(p *APeer, pod *Workload) bool {
	if p.Namespaces != nil {
		return selMatch(p.Namespaces, w.nsLabels(pod.Ns))
	}
	return selMatch(p.PodsNs, w.nsLabels(pod.Ns)) && selMatch(p.PodsPod, pod.Labels)
}
func aportMatch(r *ARule, proto string, port int, dst *Workload) bool {
	if !r.HasPorts {
		return true
	}
	for _, ap := range r.Ports {
		switch ap.Kind {
		case "number":
			if protoOr(ap.Proto) == proto && ap.Port == port {
				return true
			}
		case "range":
			if protoOr(ap.Proto) == proto && port >= ap.Port && port <= ap.End {
				return true
			}
		case "named":
			for _, cp := range dst.Ports {
				if cp.Name == ap.Name {
					if protoOr(cp.Proto) == proto && cp.Number == port {
						return true
					}
					break
				}
			}
		}
	}
	return false
}
func (w *World) adminVerdict(pols []*AdminPol, pod *Workload, other End, dir, proto string, port int, dstW *Workload) string {
	if other.W == nil {
		return "None"
	}
	for _, a := range pols {
		rules := a.Ingress
		if dir == "Egress" {
			rules = a.Egress
		}
		if len(rules) == 0 || !w.apeerMatch(&a.Subject, pod) {
			continue
		}
		for ri := range rules {
			r := &rules[ri]
			pm := false
			for pi := range r.Peers {
				if w.apeerMatch(&r.Peers[pi], other.W) {
					pm = true
				}
			}
			if pm && aportMatch(r, proto, port, dstW) {
				return r.Action
			}
		}
	}
	return "None"
}
func (w *World) dirAllowed(pod *Workload, other End, dir, proto string, port int, dst End) bool {
	sorted := w.sortedANPs()
	switch w.adminVerdict(sorted, pod, other, dir, proto, port, dst.W) {
	case "Allow":
		return true
	case "Deny":
		return false
	}
	if gov, ok := w.npVerdict(pod, other, dir, proto, port, dst); gov {
		return ok
	}
	if w.BANP != nil {
		if w.adminVerdict([]*AdminPol{w.BANP}, pod, other, dir, proto, port, dst.W) == "Deny" {
			return false
		}
	}
	return true
}
func (w *World) sortedANPs() []*AdminPol {
	sorted := make([]*AdminPol, len(w.ANPs))
	for i := range w.ANPs {
		sorted[i] = &w.ANPs[i]
	}
	sort.SliceStable(sorted, func(i, j int) bool { return sorted[i].Priority < sorted[j].Priority })
	return sorted
}

func (w *World) Allowed(src, dst End, proto string, port int) bool {
	if src.W != nil && src.W == dst.W {
		return true
	}
	if src.W != nil && !w.dirAllowed(src.W, dst, "Egress", proto, port, dst) {
		return false
	}
	if dst.W != nil && !w.dirAllowed(dst.W, src, "Ingress", proto, port, dst) {
		return false
	}
	return true
}

// named port would have to be resolved on an IP destination
func (w *World) npIPNamed() bool {
	for i := range w.NPs {
		p := &w.NPs[i]
		if !dirAffected(p, "Egress") {
			continue
		}
		gov := false
		for wi := range w.Workloads {
			if w.npGoverns(p, &w.Workloads[wi], "Egress") {
				gov = true
			}
		}
		if !gov {
			continue
		}
		for _, r := range p.Egress {
			named := false
			for _, pp := range r.Ports {
				if pp.PortNam != "" {
					named = true
				}
			}
			if !named {
				continue
			}
			if len(r.Peers) == 0 {
				return true
			}
			for _, pe := range r.Peers {
				if pe.IPBlock != nil {
					return true // conservative (block may be empty)
				}
			}
		}
	}
	return false
}

func (w *World) portConstants() []int {
	m := map[int]bool{1: true, 65535: true}
	add := func(c int) {
		for _, x := range []int{c - 1, c, c + 1} {
			if x >= 1 && x <= 65535 {
				m[x] = true
			}
		}
	}
	for _, wl := range w.Workloads {
		for _, cp := range wl.Ports {
			add(cp.Number)
		}
	}
	for _, p := range w.NPs {
		for _, rs := range [][]Rule{p.Ingress, p.Egress} {
			for _, r := range rs {
				for _, pp := range r.Ports {
					if pp.PortNum != 0 {
						add(pp.PortNum)
					}
					if pp.EndPort != 0 {
						add(pp.EndPort)
					}
				}
			}
		}
	}
	pols := []*AdminPol{}
	for i := range w.ANPs {
		pols = append(pols, &w.ANPs[i])
	}
	if w.BANP != nil {
		pols = append(pols, w.BANP)
	}
	for _, a := range pols {
		for _, rs := range [][]ARule{a.Ingress, a.Egress} {
			for _, r := range rs {
				for _, ap := range r.Ports {
					if ap.Port != 0 {
						add(ap.Port)
					}
					if ap.End != 0 {
						add(ap.End)
					}
				}
			}
		}
	}
	res := []int{}
	for k := range m {
		res = append(res, k)
	}
	sort.Ints(res)
	return res
}
func (w *World) addrConstants(extra []uint64) []uint64 {
	m := map[uint64]bool{0: true, 0xffffffff: true}
	add := func(c uint64) {
		for _, d := range []int64{-1, 0, 1} {
			x := int64(c) + d
			if x >= 0 && x <= 0xffffffff {
				m[uint64(x)] = true
			}
		}
	}
	for _, p := range w.NPs {
		for _, rs := range [][]Rule{p.Ingress, p.Egress} {
			for _, r := range rs {
				for _, pe := range r.Peers {
					if pe.IPBlock != nil {
						for _, c := range append([]string{pe.IPBlock.CIDR}, pe.IPBlock.Except...) {
							lo, hi := parseCIDR(c)
							add(lo)
							add(hi)
						}
					}
				}
			}
		}
	}
	for _, e := range extra {
		add(e)
	}
	res := []uint64{}
	for k := range m {
		res = append(res, k)
	}
	sort.Slice(res, func(i, j int) bool { return res[i] < res[j] })
	return res
}

func (wl *Workload) PeerString() string {
	kind := ownedKind(wl.Kind)
	return wl.Ns + "/" + wl.Name + "[" + kind + "]"
}

func isOwned(kind string) bool {
	return strings.HasPrefix(kind, "Owned:") || strings.HasPrefix(kind, "Owned2:")
}

func ownedKind(kind string) string {
	return strings.TrimPrefix(strings.TrimPrefix(kind, "Owned2:"), "Owned:")
}

// Clone returns a deep copy (through JSON, which is also the replay encoding).
func (w *World) Clone() *World {
	b, err := json.Marshal(w)
	if err != nil {
		panic(err)
	}
	c := &World{}
	if err := json.Unmarshal(b, c); err != nil {
		panic(err)
	}
	return c
}

func (w *World) FindWorkload(peerString string) *Workload {
	for i := range w.Workloads {
		if w.Workloads[i].PeerString() == peerString {
			return &w.Workloads[i]
		}
	}
	return nil
}

func sortStrings(xs []string) { sort.Strings(xs) }

// refKind returns the rendered kind of the i-th target reference of the route and whether it designates a Service.
func (r *Route) refKind(i int) (kind string, isService bool) {
	k := ""
	if i < len(r.Kinds) {
		k = r.Kinds[i]
	}
	switch k {
	case "":
		return "Service", true
	case "omit":
		return "", true
	}
	return k, k == "Service"
}
