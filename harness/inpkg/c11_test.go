package common

// C11 harness, injected in-package into pkg/netpol/internal/common with `go test -overlay` (the repository is not
// edited). Operation sequences over up to 4 ConnectionSet variables (and a PortSet machine) are drawn as plain
// values, interpreted against the real code and against a bitmap model of 3 x 65535 (protocol, port) points.

import (
	"fmt"
	"sort"
	"strconv"
	"strings"
	"testing"

	v1 "k8s.io/api/core/v1"
	"k8s.io/apimachinery/pkg/util/intstr"
	"pgregory.net/rapid"
)

const c11Words = 1024 // 65536 bits

type c11bm [3][c11Words]uint64

var c11Prots = []v1.Protocol{v1.ProtocolTCP, v1.ProtocolUDP, v1.ProtocolSCTP}

func (b *c11bm) setRange(p, lo, hi int) {
	for x := lo; x <= hi; x++ {
		b[p][x/64] |= 1 << uint(x%64)
	}
}
func (b *c11bm) clearRange(p, lo, hi int) {
	for x := lo; x <= hi; x++ {
		b[p][x/64] &^= 1 << uint(x%64)
	}
}
func (b *c11bm) get(p, x int) bool { return b[p][x/64]&(1<<uint(x%64)) != 0 }

var c11Full = func() *c11bm {
	var f c11bm
	for p := 0; p < 3; p++ {
		f.setRange(p, 1, 65535)
	}
	return &f
}()

func (b *c11bm) full() bool  { return *b == *c11Full }
func (b *c11bm) empty() bool { return *b == c11bm{} }
func (b *c11bm) subset(o *c11bm) bool {
	for p := 0; p < 3; p++ {
		for i := 0; i < c11Words; i++ {
			if b[p][i]&^o[p][i] != 0 {
				return false
			}
		}
	}
	return true
}

// c11Denote reads the denotation of a set through its exported observers and checks canonical form.
func c11Denote(c *ConnectionSet) (*c11bm, error) {
	var b c11bm
	if c.IsAllConnections() {
		if len(c.ProtocolsAndPortsMap()) != 0 {
			return nil, fmt.Errorf("'all connections' together with explicit ports")
		}
		return c11Full, nil
	}
	for proto, prs := range c.ProtocolsAndPortsMap() {
		pi := -1
		for i, p := range c11Prots {
			if p == proto {
				pi = i
			}
		}
		if pi < 0 {
			return nil, fmt.Errorf("unknown protocol %q", proto)
		}
		if len(prs) == 0 {
			return nil, fmt.Errorf("protocol %s present with no ranges", proto)
		}
		prev := int64(-1)
		for _, r := range prs {
			if r.Start() < 1 || r.End() > 65535 || r.Start() > r.End() || (prev >= 0 && r.Start() <= prev+1) {
				return nil, fmt.Errorf("non-canonical ranges for %s: %v", proto, prs)
			}
			prev = r.End()
			b.setRange(pi, int(r.Start()), int(r.End()))
		}
	}
	return &b, nil
}

var c11Pool = []int{1, 2, 79, 80, 81, 443, 8080, 65534, 65535}
var c11Names = []string{"http", "dns", "metrics"}

// ---- case encoding ----

type C11PSOp struct {
	Kind   string // all range port rmport name rmname
	Lo, Hi int
	Name   string
}

type C11Op struct {
	Kind  string // add union inter sub subcopy copy makeall makenone resolve
	A, B  int
	Proto int
	PS    []C11PSOp
	N     int `json:",omitempty"` // resolve: index into c11Pool of the number the name stands for
}

type C11Case struct {
	Mode string // "numeric" | "named" | "portset"
	NV   int
	Ops  []C11Op
}

func c11GenPS(t *rapid.T, named bool) []C11PSOp {
	var ops []C11PSOp
	// "add the full range" is weighted up: the explicit full set is a narrow region (DESIGN §10)
	switch rapid.IntRange(0, 5).Draw(t, "psall") {
	case 0, 1:
		ops = append(ops, C11PSOp{Kind: "all"})
	case 2:
		ops = append(ops, C11PSOp{Kind: "range", Lo: 1, Hi: 65535})
	}
	n := rapid.IntRange(0, 3).Draw(t, "nint")
	for i := 0; i < n; i++ {
		kinds := []string{"range", "range", "port", "rmport"}
		if named {
			kinds = append(kinds, "name", "name", "rmname")
		}
		k := rapid.SampledFrom(kinds).Draw(t, "pskind")
		op := C11PSOp{Kind: k}
		switch k {
		case "range":
			op.Lo = rapid.SampledFrom(c11Pool).Draw(t, "lo")
			op.Hi = rapid.SampledFrom(c11Pool).Draw(t, "hi")
			if op.Hi < op.Lo {
				op.Lo, op.Hi = op.Hi, op.Lo
			}
		case "port", "rmport":
			if rapid.Bool().Draw(t, "pooled") {
				op.Lo = rapid.SampledFrom(c11Pool).Draw(t, "p")
			} else {
				op.Lo = rapid.IntRange(1, 65535).Draw(t, "p")
			}
		default:
			op.Name = rapid.SampledFrom(c11Names).Draw(t, "name")
		}
		ops = append(ops, op)
	}
	return ops
}

func genC11(t *rapid.T) *C11Case {
	c := &C11Case{Mode: rapid.SampledFrom([]string{"numeric", "numeric", "numeric", "named", "portset"}).Draw(t, "mode"), NV: rapid.IntRange(2, 4).Draw(t, "nv")}
	nsteps := rapid.IntRange(1, 25).Draw(t, "nsteps")
	kinds := []string{"add", "add", "add", "union", "union", "inter", "inter", "sub", "sub", "subcopy", "copy", "makeall", "makenone"}
	for s := 0; s < nsteps; s++ {
		op := C11Op{Kind: rapid.SampledFrom(kinds).Draw(t, "op"), A: rapid.IntRange(0, c.NV-1).Draw(t, "a"), B: rapid.IntRange(0, c.NV-1).Draw(t, "b")}
		if op.Kind == "add" {
			op.Proto = rapid.IntRange(0, 2).Draw(t, "proto")
			op.PS = c11GenPS(t, c.Mode == "named")
		}
		if c.Mode == "named" && rapid.IntRange(0, 5).Draw(t, "resolve") == 0 {
			// a held port name is resolved for a pod: replaced by the number it stands for there (the one caller never
			// passes NoPort, which would leave an entry without ports behind - outside the domain)
			op = C11Op{Kind: "resolve", A: op.A, B: op.B, N: rapid.IntRange(0, len(c11Pool)-1).Draw(t, "resolven")}
		}
		c.Ops = append(c.Ops, op)
	}
	return c
}

func c11BuildPS(ops []C11PSOp) (*PortSet, *[c11Words]uint64) {
	var bits c11bm
	ps := MakePortSet(false)
	for _, op := range ops {
		switch op.Kind {
		case "all":
			// the full set as callers make it; only as the first step
			ps = MakePortSet(true)
			bits.setRange(0, 1, 65535)
		case "range":
			ps.AddPortRange(int64(op.Lo), int64(op.Hi))
			bits.setRange(0, op.Lo, op.Hi)
		case "port":
			ps.AddPort(intstr.FromInt32(int32(op.Lo)))
			bits.setRange(0, op.Lo, op.Lo)
		case "rmport":
			ps.RemovePort(intstr.FromInt32(int32(op.Lo)))
			bits.clearRange(0, op.Lo, op.Lo)
		case "name":
			ps.AddPort(intstr.FromString(op.Name))
		case "rmname":
			ps.RemovePort(intstr.FromString(op.Name))
		}
	}
	return ps, &bits[0]
}

// c11Snap is a complete structural snapshot of a set (in-package: reads the fields).
func c11Snap(c *ConnectionSet) string {
	var parts []string
	for p, ps := range c.AllowedProtocols {
		var nn, ex []string
		for n, v := range ps.NamedPorts {
			nn = append(nn, fmt.Sprintf("%s=%v", n, v))
		}
		for n, v := range ps.ExcludedNamedPorts {
			ex = append(ex, fmt.Sprintf("%s=%v", n, v))
		}
		sort.Strings(nn)
		sort.Strings(ex)
		parts = append(parts, fmt.Sprintf("%s:%s|%v|%v", p, ps.Ports.String(), nn, ex))
	}
	sort.Strings(parts)
	return fmt.Sprintf("all=%v %s", c.AllowAll, strings.Join(parts, ";"))
}

// c11NameSets: the port names a set holds and excludes, per protocol (protocols without names left out).
func c11NameSets(c *ConnectionSet) string {
	var parts []string
	for p, ps := range c.AllowedProtocols {
		var nn, ex []string
		for n, v := range ps.NamedPorts {
			if v {
				nn = append(nn, n)
			}
		}
		for n, v := range ps.ExcludedNamedPorts {
			if v {
				ex = append(ex, n)
			}
		}
		if len(nn)+len(ex) == 0 {
			continue
		}
		sort.Strings(nn)
		sort.Strings(ex)
		parts = append(parts, fmt.Sprintf("%s:%v|%v", p, nn, ex))
	}
	sort.Strings(parts)
	return strings.Join(parts, ";")
}

func checkC11(c *C11Case, st *VStats) *VFailure {
	if c.Mode == "portset" {
		return checkC11PortSet(c, st)
	}
	named := c.Mode == "named"
	nv := c.NV
	vars := make([]*ConnectionSet, nv)
	models := make([]*c11bm, nv)
	for i := range vars {
		vars[i] = MakeConnectionSet(false)
		models[i] = &c11bm{}
	}
	inv := func(step string) *VFailure {
		for i := range vars {
			if named {
				// sets with named ports: the numeric points still follow the model, and a set that covers every port
				// number of every protocol (none excluded by name) is the full set
				for _, x := range c11Pool {
					for pi, p := range c11Prots {
						if vars[i].Contains(strconv.Itoa(x), string(p)) != models[i].get(pi, x) {
							return vfail("%s: v%d Contains(%d,%s)=%v, model=%v (set %q)", step, i, x, p, !models[i].get(pi, x), models[i].get(pi, x), vars[i].String())
						}
					}
				}
				excluded := false
				for proto, ps := range vars[i].AllowedProtocols {
					if len(ps.ExcludedNamedPorts) > 0 {
						excluded = true
					}
					// a port name is either held or excluded by a set, never both
					for n := range ps.ExcludedNamedPorts {
						if ps.NamedPorts[n] {
							return vfail("%s: v%d both holds and excludes the named port %s/%s (prints %q)", step, i, proto, n, vars[i].String())
						}
					}
				}
				if models[i].full() && !excluded && (!vars[i].IsAllConnections() || vars[i].String() != "All Connections") {
					return vfail("%s: v%d covers every port of every protocol (plus named ports) but is not recognised as the full set: IsAllConnections=%v String=%q", step, i, vars[i].IsAllConnections(), vars[i].String())
				}
				continue
			}
			d, err := c11Denote(vars[i])
			if err != nil {
				return vfail("%s: v%d is not canonical: %v (prints %q)", step, i, err, vars[i].String())
			}
			if *d != *models[i] {
				return vfail("%s: v%d denotes %q, which is not the set the model computes", step, i, vars[i].String())
			}
			if vars[i].IsEmpty() != models[i].empty() {
				return vfail("%s: v%d IsEmpty=%v, model empty=%v", step, i, vars[i].IsEmpty(), models[i].empty())
			}
			if vars[i].IsAllConnections() != models[i].full() || (vars[i].String() == "All Connections") != models[i].full() {
				return vfail("%s: v%d full set not recognised: IsAllConnections=%v String=%q model full=%v", step, i, vars[i].IsAllConnections(), vars[i].String(), models[i].full())
			}
			for _, x := range c11Pool {
				for pi, p := range c11Prots {
					for _, ps := range []string{string(p), strings.ToLower(string(p))} {
						if vars[i].Contains(strconv.Itoa(x), ps) != models[i].get(pi, x) {
							return vfail("%s: v%d Contains(%d,%s)=%v, model=%v (set %q)", step, i, x, ps, !models[i].get(pi, x), models[i].get(pi, x), vars[i].String())
						}
					}
				}
			}
			if vars[i].Contains("http", "TCP") {
				return vfail("%s: v%d Contains(\"http\") is true for a non-numeric port", step, i)
			}
			st.Points(1)
		}
		for i := range vars {
			for j := range vars {
				eqAPI := vars[i].Equal(vars[j])
				if named {
					// (B): only the clauses the property states for sets with named ports
					if eqAPI && vars[i].String() != vars[j].String() {
						return vfail("%s: equal sets print differently: v%d %q vs v%d %q", step, i, vars[i].String(), j, vars[j].String())
					}
					for p, names := range vars[i].GetNamedPorts() {
						for _, n := range names {
							o := vars[j]
							if o.AllowAll {
								continue
							}
							ops, ok := o.AllowedProtocols[p]
							has := ok && (ops.NamedPorts[n] || ops.Ports.Equal(MakePortSet(true).Ports))
							if !has && vars[i].ContainedIn(o) {
								return vfail("%s: v%d=%q holds named port %s/%s; v%d=%q has neither that name nor the full %s range, yet ContainedIn is true", step, i, vars[i].String(), p, n, j, o.String(), p)
							}
						}
					}
					continue
				}
				eq := *models[i] == *models[j]
				if eqAPI != eq {
					return vfail("%s: Equal(v%d,v%d)=%v but the denoted sets are equal=%v (%q vs %q)", step, i, j, eqAPI, eq, vars[i].String(), vars[j].String())
				}
				if (vars[i].String() == vars[j].String()) != eq {
					return vfail("%s: v%d and v%d: printing (%q vs %q) disagrees with set equality %v", step, i, j, vars[i].String(), vars[j].String(), eq)
				}
				if vars[i].ContainedIn(vars[j]) != models[i].subset(models[j]) {
					return vfail("%s: ContainedIn(v%d,v%d)=%v, model subset=%v (%q in %q)", step, i, j, vars[i].ContainedIn(vars[j]), models[i].subset(models[j]), vars[i].String(), vars[j].String())
				}
			}
		}
		return nil
	}
	kinds := map[string]bool{}
	mutating := 0
	for s, op := range c.Ops {
		a, b := op.A%nv, op.B%nv
		// snapshots of every variable other than the updated one: operands are not modified, results never alias
		before := make([]string, nv)
		for i := range vars {
			before[i] = c11Snap(vars[i])
		}
		step := fmt.Sprintf("after step %d (%s v%d v%d)", s, op.Kind, a, b)
		switch op.Kind {
		case "add":
			if vars[a].AllowAll {
				continue // AddConnection on the AllowAll form is not done by any caller
			}
			ps, bits := c11BuildPS(op.PS)
			psBefore := ps.String()
			vars[a].AddConnection(c11Prots[op.Proto], ps)
			for i := range bits {
				models[a][op.Proto][i] |= bits[i]
			}
			if ps.String() != psBefore {
				return vfail("%s: AddConnection modified its PortSet argument: %q -> %q", step, psBefore, ps.String())
			}
			// the argument must not be aliased by the set
			ps.AddPortRange(7777, 7777)
			ps.AddPort(intstr.FromString("aliasprobe"))
			if strings.Contains(c11Snap(vars[a]), "aliasprobe") || (!models[a].get(op.Proto, 7777) && vars[a].Contains("7777", string(c11Prots[op.Proto]))) {
				return vfail("%s: the set aliases the PortSet passed to AddConnection", step)
			}
			step += fmt.Sprintf(" ports=%+v", op.PS)
		case "union":
			// union commutes: b ∪ a, computed on copies, equals a ∪ b (also for sets that hold or exclude port names)
			ba, ab := vars[b].Copy(), vars[a].Copy()
			ba.Union(vars[a])
			ab.Union(vars[b])
			if !ab.Equal(ba) || !ba.Equal(ab) || ab.String() != ba.String() {
				return vfail("%s: union does not commute: a∪b=%q (%s) b∪a=%q (%s)", step, ab.String(), c11Snap(ab), ba.String(), c11Snap(ba))
			}
			bWasEmpty, uCopy := vars[b].IsEmpty(), vars[a].Copy()
			vars[a].Union(vars[b])
			if bWasEmpty && !(vars[a].Equal(uCopy) && vars[a].String() == uCopy.String() && c11NameSets(vars[a]) == c11NameSets(uCopy)) {
				return vfail("%s: X ∪ ∅ is not X: X=%q (%s), result %q (%s)", step, uCopy.String(), c11Snap(uCopy), vars[a].String(), c11Snap(vars[a]))
			}
			for p := 0; p < 3; p++ {
				for i := 0; i < c11Words; i++ {
					models[a][p][i] |= models[b][p][i]
				}
			}
		case "inter":
			// the full set is the neutral element of intersection and a set intersected with itself stays as it is -
			// with every port NAME the other operand holds or excludes, in whichever operand the full set stands
			aWasAll, bWasAll, aCopy := vars[a].AllowAll, vars[b].AllowAll, vars[a].Copy()
			vars[a].Intersection(vars[b])
			if a != b && aWasAll && !(vars[a].Equal(vars[b]) && vars[b].Equal(vars[a]) && vars[a].String() == vars[b].String() && c11NameSets(vars[a]) == c11NameSets(vars[b])) {
				return vfail("%s: All ∩ X is not X: X=%q (%s), result %q (%s)", step, vars[b].String(), c11Snap(vars[b]), vars[a].String(), c11Snap(vars[a]))
			}
			if (bWasAll || a == b) && !(vars[a].Equal(aCopy) && aCopy.Equal(vars[a]) && vars[a].String() == aCopy.String() && c11NameSets(vars[a]) == c11NameSets(aCopy)) {
				return vfail("%s: X ∩ All (or X ∩ X) is not X: X=%q (%s), result %q (%s)", step, aCopy.String(), c11Snap(aCopy), vars[a].String(), c11Snap(vars[a]))
			}
			for p := 0; p < 3; p++ {
				for i := 0; i < c11Words; i++ {
					models[a][p][i] &= models[b][p][i]
				}
			}
		case "sub":
			mb := *models[b]
			sbWasEmpty, sCopy := vars[b].IsEmpty(), vars[a].Copy()
			vars[a].Subtract(vars[b])
			if a != b && sbWasEmpty && !(vars[a].Equal(sCopy) && vars[a].String() == sCopy.String() && c11NameSets(vars[a]) == c11NameSets(sCopy)) {
				return vfail("%s: X - ∅ is not X: X=%q (%s), result %q (%s)", step, sCopy.String(), c11Snap(sCopy), vars[a].String(), c11Snap(vars[a]))
			}
			for p := 0; p < 3; p++ {
				for i := 0; i < c11Words; i++ {
					models[a][p][i] &^= mb[p][i]
				}
			}
		case "subcopy":
			cp := vars[a].Copy()
			vars[a].Subtract(cp)
			models[a] = &c11bm{}
			if named {
				break
			}
		case "copy":
			vars[a] = vars[b].Copy()
			m := *models[b]
			models[a] = &m
			if !vars[a].Equal(vars[b]) || vars[a].String() != vars[b].String() || c11Snap(vars[a]) != c11Snap(vars[b]) {
				return vfail("%s: Copy is not equal to its original (names lost?): %q vs %q", step, c11Snap(vars[a]), c11Snap(vars[b]))
			}
		case "resolve":
			// ReplaceNamedPortWithMatchingPortNum as its caller uses it: for a name the set holds, on that protocol
			type pn struct {
				p v1.Protocol
				n string
			}
			var held []pn
			for p, names := range vars[a].GetNamedPorts() {
				for _, n := range names {
					held = append(held, pn{p, n})
				}
			}
			if len(held) == 0 {
				continue
			}
			sort.Slice(held, func(i, j int) bool {
				if held[i].p != held[j].p {
					return held[i].p < held[j].p
				}
				return held[i].n < held[j].n
			})
			h := held[op.B%len(held)]
			num := int32(NoPort)
			if op.N >= 0 {
				num = int32(c11Pool[op.N%len(c11Pool)])
			}
			vars[a].ReplaceNamedPortWithMatchingPortNum(h.p, h.n, num)
			for pi, p := range c11Prots {
				if p == h.p && num != NoPort {
					models[a].setRange(pi, int(num), int(num))
				}
			}
			step += fmt.Sprintf(" %s/%s -> %d", h.p, h.n, num)
			for p, names := range vars[a].GetNamedPorts() {
				for _, n := range names {
					if p == h.p && n == h.n {
						return vfail("%s: the name is still held after it was replaced by its number: %q (%s)", step, vars[a].String(), c11Snap(vars[a]))
					}
				}
			}
			if strings.Contains(vars[a].String(), h.n) {
				// (names of the pool are not substrings of protocol names or of each other)
				stillOther := false
				for p, names := range vars[a].GetNamedPorts() {
					for _, n := range names {
						if n == h.n && p != h.p {
							stillOther = true
						}
					}
				}
				if !stillOther {
					return vfail("%s: the set still PRINTS the name that was replaced by its number: %q", step, vars[a].String())
				}
			}
		case "makeall":
			vars[a] = MakeConnectionSet(true)
			m := *c11Full
			models[a] = &m
		case "makenone":
			vars[a] = MakeConnectionSet(false)
			models[a] = &c11bm{}
		}
		kinds[op.Kind] = true
		if op.Kind != "makeall" && op.Kind != "makenone" && op.Kind != "copy" {
			mutating++
		}
		for i := range vars {
			if i != a && c11Snap(vars[i]) != before[i] {
				return vfail("%s: v%d was modified although only v%d is updated (operand modified or aliased): %q -> %q", step, i, a, before[i], c11Snap(vars[i]))
			}
		}
		if f := inv(step); f != nil {
			return f
		}
	}
	st.Class("mode " + c.Mode)
	allEmpty, allFull := true, true
	for i := range models {
		if !models[i].empty() {
			allEmpty = false
		}
		if !models[i].full() {
			allFull = false
		}
	}
	if mutating >= 3 && len(kinds) >= 2 && !allEmpty && !allFull {
		st.NonTrivialCase(c)
	}
	return nil
}

// ---- PortSet alone (one protocol's bitmap) ----

func checkC11PortSet(c *C11Case, st *VStats) *VFailure {
	nv := c.NV
	vars := make([]*PortSet, nv)
	models := make([]*[c11Words]uint64, nv)
	for i := range vars {
		vars[i] = MakePortSet(false)
		models[i] = &[c11Words]uint64{}
	}
	get := func(m *[c11Words]uint64, x int) bool { return m[x/64]&(1<<uint(x%64)) != 0 }
	snap := func(p *PortSet) string { return p.Ports.String() + fmt.Sprint(p.NamedPorts, p.ExcludedNamedPorts) }
	var fullRow [c11Words]uint64 = c11Full[0]
	mutating := 0
	for s, op := range c.Ops {
		a, b := op.A%nv, op.B%nv
		before := make([]string, nv)
		for i := range vars {
			before[i] = snap(vars[i])
		}
		step := fmt.Sprintf("portset: after step %d (%s v%d v%d)", s, op.Kind, a, b)
		switch op.Kind {
		case "add":
			ps, bits := c11BuildPS(op.PS)
			vars[a].Union(ps)
			for i := range bits {
				models[a][i] |= bits[i]
			}
			mutating++
		case "union":
			vars[a].Union(vars[b])
			for i := range models[a] {
				models[a][i] |= models[b][i]
			}
			mutating++
		case "inter":
			vars[a].Intersection(vars[b])
			for i := range models[a] {
				models[a][i] &= models[b][i]
			}
			mutating++
		case "sub", "subcopy":
			o := vars[b]
			mb := *models[b]
			if op.Kind == "subcopy" {
				o = vars[a].Copy()
				mb = *models[a]
			}
			vars[a].subtract(o)
			for i := range models[a] {
				models[a][i] &^= mb[i]
			}
			mutating++
		case "copy":
			vars[a] = vars[b].Copy()
			m := *models[b]
			models[a] = &m
		case "makeall":
			vars[a] = MakePortSet(true)
			m := fullRow
			models[a] = &m
		case "makenone":
			vars[a] = MakePortSet(false)
			models[a] = &[c11Words]uint64{}
		}
		for i := range vars {
			if i != a && snap(vars[i]) != before[i] {
				return vfail("%s: v%d was modified although only v%d is updated: %q -> %q", step, i, a, before[i], snap(vars[i]))
			}
		}
		for i := range vars {
			for _, x := range c11Pool {
				if vars[i].Contains(int64(x)) != get(models[i], x) {
					return vfail("%s: v%d Contains(%d) wrong (set %q)", step, i, x, vars[i].String())
				}
			}
			if vars[i].IsEmpty() != (*models[i] == [c11Words]uint64{}) {
				return vfail("%s: v%d IsEmpty=%v disagrees with the model (set %q)", step, i, vars[i].IsEmpty(), vars[i].String())
			}
			if vars[i].IsAll() != (*models[i] == fullRow) {
				return vfail("%s: v%d IsAll=%v disagrees with the model (set %q)", step, i, vars[i].IsAll(), vars[i].String())
			}
			for j := range vars {
				eq := *models[i] == *models[j]
				if vars[i].Equal(vars[j]) != eq || (vars[i].String() == vars[j].String()) != eq {
					return vfail("%s: Equal/String of v%d,v%d disagree with the model (equal=%v): %q vs %q", step, i, j, eq, vars[i].String(), vars[j].String())
				}
				sub := true
				for k := range models[i] {
					if models[i][k]&^models[j][k] != 0 {
						sub = false
					}
				}
				if vars[i].ContainedIn(vars[j]) != sub {
					return vfail("%s: ContainedIn(v%d,v%d)=%v, model=%v (%q in %q)", step, i, j, vars[i].ContainedIn(vars[j]), sub, vars[i].String(), vars[j].String())
				}
			}
			st.Points(1)
		}
	}
	st.Class("mode portset")
	if mutating >= 3 {
		st.NonTrivialCase(c)
	}
	return nil
}

func init() { vRegister("C11", checkC11) }

func TestC11(t *testing.T) { vRunProp(t, "C11", genC11, checkC11) }

func TestReplay(t *testing.T) { vReplay(t) }

func FuzzC11(f *testing.F) { vFuzzProp(f, "C11", genC11, checkC11) }
