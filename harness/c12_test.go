package harness

import (
	"encoding/json"
	"fmt"
	"os"
	"path/filepath"
	"regexp"
	"runtime/debug"
	"sort"
	"strings"
	"testing"
	"time"

	"pgregory.net/rapid"
	"sigs.k8s.io/yaml"

	"github.com/np-guard/netpol-analyzer/pkg/netpol/eval"
)

// ---------- C12: analysis is total (never panics) ----------

type C12File struct {
	Path    string
	Content string
}

type C12Case struct {
	Files []C12File
	Desc  []string // (kind, path, mutation) of each applied mutation
	CLI   bool     // also run the built binary
	// EvalPods: "ns/name" of Pod manifests of the context world, for `k8snetpolicy eval` invocations
	EvalPods []string `json:",omitempty"`
}

var c12Seeds struct {
	loaded bool
	byKind map[string][]map[string]interface{}
	kinds  []string
}

var docSep = regexp.MustCompile(`(?m)^---\s*$`)

func stripNoise(m map[string]interface{}) {
	if md, ok := m["metadata"].(map[string]interface{}); ok {
		delete(md, "managedFields")
		delete(md, "annotations")
	}
	if stt, ok := m["status"].(map[string]interface{}); ok {
		delete(stt, "conditions")
		delete(stt, "containerStatuses")
	}
}

func c12LoadSeeds() {
	if c12Seeds.loaded {
		return
	}
	c12Seeds.loaded = true
	c12Seeds.byKind = map[string][]map[string]interface{}{}
	repo := os.Getenv("VERIF_REPO")
	if repo == "" {
		repo = "/repo"
	}
	var files []string
	for _, pat := range []string{"tests/*/*.y*ml", "tests/*/*/*.y*ml", "tests/*/*/*/*.y*ml"} {
		m, _ := filepath.Glob(filepath.Join(repo, pat))
		files = append(files, m...)
	}
	sort.Strings(files)
	add := func(m map[string]interface{}) {
		k, _ := m["kind"].(string)
		if k == "" {
			return
		}
		stripNoise(m)
		// keep the corpus small and varied: at most 12 documents per kind
		if len(c12Seeds.byKind[k]) >= 12 {
			return
		}
		if _, ok := c12Seeds.byKind[k]; !ok {
			c12Seeds.kinds = append(c12Seeds.kinds, k)
		}
		c12Seeds.byKind[k] = append(c12Seeds.byKind[k], m)
	}
	for _, f := range files {
		if strings.Contains(f, "bad_yamls") || strings.Contains(f, "syntax_error") || strings.Contains(f, "dirty") {
			continue
		}
		b, err := os.ReadFile(f)
		if err != nil || len(b) > 200000 {
			continue
		}
		for _, part := range docSep.Split(string(b), -1) {
			var m map[string]interface{}
			if err := yaml.Unmarshal([]byte(part), &m); err != nil || m == nil {
				continue
			}
			if k, ok := m["kind"].(string); ok {
				if items, ok := m["items"].([]interface{}); ok && strings.HasSuffix(k, "List") {
					for _, it := range items {
						if im, ok := it.(map[string]interface{}); ok {
							add(im)
						}
					}
				} else {
					add(m)
				}
			}
		}
	}
	sort.Strings(c12Seeds.kinds)
}

// keys the analyzer's typed structs read: paths ending in one of them are weighted 10:1
var c12HotKeys = func() map[string]bool {
	m := map[string]bool{}
	for _, k := range strings.Fields(`spec metadata name namespace labels ownerReferences controller status hostIP podIPs ip containers ports
 containerPort protocol template replicas parallelism jobTemplate selector matchLabels matchExpressions key operator values podSelector
 namespaceSelector ipBlock cidr except policyTypes ingress egress from to port endPort priority subject namespaces pods action portNumber
 portRange namedPort start end rules http paths backend service number defaultBackend targetPort alternateBackends host path items kind`) {
		m[k] = true
	}
	return m
}()

type jpath []interface{}

func allPaths(v interface{}, pre jpath, out *[]jpath) {
	switch x := v.(type) {
	case map[string]interface{}:
		keys := make([]string, 0, len(x))
		for k := range x {
			keys = append(keys, k)
		}
		sort.Strings(keys)
		for _, k := range keys {
			p := append(append(jpath{}, pre...), k)
			*out = append(*out, p)
			allPaths(x[k], p, out)
		}
	case []interface{}:
		for i := range x {
			p := append(append(jpath{}, pre...), i)
			*out = append(*out, p)
			allPaths(x[i], p, out)
		}
	}
}

func deepCopy(v interface{}) interface{} {
	switch x := v.(type) {
	case map[string]interface{}:
		m := map[string]interface{}{}
		for k, e := range x {
			m[k] = deepCopy(e)
		}
		return m
	case []interface{}:
		s := make([]interface{}, len(x))
		for i, e := range x {
			s[i] = deepCopy(e)
		}
		return s
	}
	return v
}

func getAt(v interface{}, p jpath) interface{} {
	for _, k := range p {
		switch x := v.(type) {
		case map[string]interface{}:
			ks, ok := k.(string)
			if !ok {
				return nil
			}
			v = x[ks]
		case []interface{}:
			i, ok := k.(int)
			if !ok || i >= len(x) {
				return nil
			}
			v = x[i]
		default:
			return nil
		}
	}
	return v
}

// setAt sets (or deletes) the value at p, creating intermediate maps where missing (for grafts).
func setAt(root map[string]interface{}, p jpath, val interface{}, del bool) {
	var v interface{} = root
	for i, k := range p[:len(p)-1] {
		switch x := v.(type) {
		case map[string]interface{}:
			ks, isStr := k.(string)
			if !isStr {
				return // the document's shape differs from the path's (an earlier mutation retyped a node)
			}
			nxt, ok := x[ks]
			if !ok || nxt == nil {
				if _, isInt := p[i+1].(int); isInt {
					nxt = []interface{}{map[string]interface{}{}}
				} else {
					nxt = map[string]interface{}{}
				}
				x[ks] = nxt
			}
			v = nxt
		case []interface{}:
			idx, isInt := k.(int)
			if !isInt || idx >= len(x) {
				return
			}
			if x[idx] == nil {
				x[idx] = map[string]interface{}{}
			}
			v = x[idx]
		default:
			return
		}
	}
	last := p[len(p)-1]
	switch x := v.(type) {
	case map[string]interface{}:
		if ks, ok := last.(string); ok {
			if del {
				delete(x, ks)
			} else {
				x[ks] = val
			}
		}
	case []interface{}:
		if idx, ok := last.(int); ok && idx < len(x) {
			x[idx] = val
		}
	}
}

var hostileStr = []string{"ingress-controller-ns", "ingress-controller", "", "fe80::1", "2001:db8::/32", "::/0", "300.1.1.1/40", "10.0.0.0/33", "10.0.0.1", "0.0.0.0/0", "null", "ünï", "-1", "0", "65536", "TCP", "udp", "Pass", "http", strings.Repeat("x", 300)}
var hostileIP = []string{"fe80::1", "not-an-ip", "", "300.1.1.1", "::ffff:10.0.0.1", "10.0.0.1/24", "::1", "0.0.0.0", "255.255.255.255"}
var hostileCIDR = []string{"2001:db8::/32", "::/0", "10.0.0.0/33", "300.1.1.1/8", "10.0.0.1", "", "10.0.0.0/-1", "0.0.0.0/0", "10.1.2.3/8"}
var ipRe = regexp.MustCompile(`^\d+\.\d+\.\d+\.\d+$`)
var cidrRe = regexp.MustCompile(`^\d+\.\d+\.\d+\.\d+/\d+$`)

// optional subtrees absent from most seeds, grafted so that hostile shapes of optional fields are reachable
var c12Grafts = map[string][]struct {
	Path jpath
	Val  string // JSON
}{
	"Pod": {
		{jpath{"metadata", "ownerReferences"}, `[{"apiVersion":"apps/v1","kind":"ReplicaSet","name":"owner","uid":"u1"}]`},
		{jpath{"metadata", "ownerReferences"}, `[{"apiVersion":"apps/v1","kind":"ReplicaSet","name":"owner","uid":"u1","controller":false},{"apiVersion":"v1","kind":"Node","name":"n","uid":"u2","controller":true}]`},
		{jpath{"metadata", "ownerReferences"}, `[{"apiVersion":"apps/v1","kind":"ReplicaSet","name":"owner","uid":"u1","controller":null}]`},
		{jpath{"status"}, `{"hostIP":"fe80::1","podIPs":[{"ip":"10.0.0.9"}]}`},
		{jpath{"status"}, `{"hostIP":"not-an-ip","podIPs":[{"ip":"10.0.0.9"}]}`},
		{jpath{"status"}, `{"hostIP":"10.0.0.1","podIPs":[{"ip":"fe80::2"},{"ip":""}]}`},
		{jpath{"status"}, `{"hostIP":"10.0.0.1","podIP":"10.0.0.9"}`},
		{jpath{"status"}, `{"hostIPs":[],"podIPs":[{"ip":"10.0.0.9"}]}`},
		{jpath{"status"}, `{"hostIPs":[{"ip":"fe80::1"},{"ip":""}],"podIPs":[]}`},
		{jpath{"status"}, `{"hostIP":"","hostIPs":[],"podIP":"","podIPs":[]}`},
		{jpath{"status"}, `{"podIPs":[{}],"conditions":[],"containerStatuses":[]}`},
		{jpath{"spec", "containers"}, `[]`},
		{jpath{"metadata", "namespace"}, `"ingress-controller-ns"`},
		{jpath{"metadata", "name"}, `"ingress-controller"`},
		{jpath{"spec", "containers"}, `[{"name":"c","ports":[{"containerPort":0},{"name":"","containerPort":70000,"protocol":"ICMP"}]}]`},
	},
	"Ingress": {
		{jpath{"spec", "rules"}, `[{"host":"only-host.example.com"}]`},
		{jpath{"spec", "rules"}, `[{"http":{"paths":[{"path":"/","pathType":"Prefix","backend":{"resource":{"kind":"Bucket","name":"b"}}}]}}]`},
		{jpath{"spec", "rules"}, `[{"http":{"paths":[{"path":"/","pathType":"Prefix","backend":{}}]}}]`},
		{jpath{"spec", "rules"}, `[{"http":{}}]`},
		{jpath{"spec", "defaultBackend"}, `{"resource":{"kind":"Bucket","name":"b"}}`},
		{jpath{"spec", "defaultBackend"}, `{}`},
		{jpath{"spec", "defaultBackend"}, `{"service":{"name":"svc"}}`},
		{jpath{"spec", "defaultBackend"}, `{"service":{"name":"svc","port":{}}}`},
		{jpath{"spec", "defaultBackend"}, `{"service":{"name":"svc","port":{"name":"http","number":80}}}`},
		{jpath{"spec"}, `{"rules":[{"http":{"paths":[{"backend":{"service":{"name":"","port":{"number":0}}}},{"backend":{"service":null}}]}},{}]}`},
		{jpath{"spec"}, `{}`},
		{jpath{"metadata", "namespace"}, `"ingress-controller-ns"`},
	},
	"Route": {
		{jpath{"spec", "port"}, `{}`},
		{jpath{"spec", "port"}, `null`},
		{jpath{"spec", "to"}, `{}`},
		{jpath{"spec", "alternateBackends"}, `[{},{"kind":"Service"}]`},
		{jpath{"spec", "to"}, `{"kind":"Bucket","name":"b"}`},
		{jpath{"spec"}, `{"to":{"kind":"Bucket","name":"b"},"alternateBackends":[{"kind":"Service","name":"svc"},{"name":"svc2","weight":null}]}`},
		{jpath{"spec"}, `{"to":{"kind":"","name":""},"alternateBackends":[{"kind":"Bucket","name":"b"},{"kind":"Service","name":""}],"port":{"targetPort":""}}`},
		{jpath{"spec"}, `{"alternateBackends":[{"kind":"Service","name":"svc"}]}`},
		{jpath{"spec"}, `{}`},
		{jpath{"spec", "port"}, `{"targetPort":"no-such-port"}`},
		{jpath{"spec", "port"}, `{"targetPort":0}`},
		{jpath{"metadata", "namespace"}, `"ingress-controller-ns"`},
	},
	"ReplicationController": {{jpath{"spec", "template"}, `null`}, {jpath{"spec"}, `{"replicas":2}`}},
	"Deployment":            {{jpath{"spec", "template"}, `{}`}, {jpath{"spec"}, `{}`}, {jpath{"spec", "replicas"}, `null`}},
	"CronJob":               {{jpath{"spec", "jobTemplate"}, `{}`}, {jpath{"spec"}, `{}`}},
	"Job":                   {{jpath{"spec", "parallelism"}, `null`}, {jpath{"spec", "template"}, `{}`}},
	"Service":               {{jpath{"spec", "ports"}, `[{"port":80,"targetPort":null},{"targetPort":"x"},{}]`}, {jpath{"spec", "selector"}, `null`}},
	"NetworkPolicy": {
		// single-purpose port shapes (a rule without peers applies to every peer, so the ports are evaluated)
		{jpath{"spec", "ingress"}, `[{"ports":[{"endPort":90}]}]`},
		{jpath{"spec", "egress"}, `[{"ports":[{"protocol":"TCP","endPort":8080}]}]`},
		{jpath{"spec", "ingress"}, `[{"ports":[{"port":null,"endPort":1}]}]`},
		{jpath{"spec", "egress"}, `[{"ports":[{}]}]`},
		{jpath{"spec", "ingress"}, `[{"ports":[{"port":"http","endPort":90}]}]`},
		{jpath{"spec", "ingress"}, `[{"ports":[{"port":90,"endPort":80}]}]`},
		{jpath{"spec", "egress"}, `[{"ports":[{"port":0}]},{"ports":[{"port":70000}]},{"ports":[{"port":-1}]}]`},
		{jpath{"spec", "ingress"}, `[{"ports":[{"protocol":"ICMP","port":80}]}]`},
		{jpath{"spec", "ingress"}, `[{"ports":[{"protocol":"","port":""}]}]`},
		{jpath{"spec", "podSelector"}, `{}`},
		// the namespace / pod name the tool itself uses for its fake ingress-controller pod
		{jpath{"metadata", "namespace"}, `"ingress-controller-ns"`},
		{jpath{"spec", "policyTypes"}, `["Ingress","Egress","Bogus"]`},
		{jpath{"spec", "policyTypes"}, `[]`},
		{jpath{"spec", "ingress"}, `[{"from":[{"podSelector":null,"namespaceSelector":null,"ipBlock":null}]}]`},
		{jpath{"spec", "egress"}, `[{"to":[{"ipBlock":{"cidr":"10.0.0.0/8","except":["10.0.0.0/8"]}}]}]`},
		{jpath{"spec", "egress"}, `[{"to":[{"ipBlock":{"cidr":"10.0.0.0/8"},"podSelector":{}}]}]`},
		{jpath{"spec", "ingress"}, `[{"from":[{}]}]`},
		{jpath{"spec", "egress"}, `[{"to":[{"ipBlock":{"cidr":"10.0.0.0/8","except":["11.0.0.0/8"]}}],"ports":[{"endPort":90}]}]`},
		{jpath{"spec", "ingress"}, `[{"ports":[{"port":"http","endPort":90},{"port":90,"endPort":80},{"protocol":"ICMP","port":80}]}]`},
		{jpath{"spec", "egress"}, `[{"to":[{"ipBlock":{"cidr":"::/0"}},{"ipBlock":{}}]}]`},
		// valid dual-stack policies: an IPv6 block alone, next to an IPv4 block, with an IPv6 except
		{jpath{"spec", "egress"}, `[{"to":[{"ipBlock":{"cidr":"fd00:10:244::/56"}}]}]`},
		{jpath{"spec", "ingress"}, `[{"from":[{"ipBlock":{"cidr":"2001:db8::/32"}},{"ipBlock":{"cidr":"10.0.0.0/8"}}],"ports":[{"port":80}]}]`},
		{jpath{"spec", "egress"}, `[{"to":[{"ipBlock":{"cidr":"::/0","except":["fd00::/8"]}}]},{"to":[{"ipBlock":{"cidr":"0.0.0.0/0","except":["10.0.0.0/8"]}}]}]`},
		{jpath{"spec", "ingress"}, `[{"from":[{"ipBlock":{"cidr":"::ffff:10.0.0.0/104"}}]}]`},
		{jpath{"spec", "podSelector"}, `{"matchExpressions":[{"key":"a","operator":"In"},{"key":"","operator":"Bogus","values":["x"]}]}`},
	},
	"AdminNetworkPolicy": {
		{jpath{"spec", "ingress"}, `[{"action":"Allow","from":[{"namespaces":{}}],"ports":[{"portNumber":{}}]}]`},
		{jpath{"spec", "ingress"}, `[{"action":"Deny","from":[{"namespaces":{}}],"ports":[{"portRange":{}}]}]`},
		{jpath{"spec", "egress"}, `[{"action":"Allow","to":[{"namespaces":{}}],"ports":[{"portNumber":{"protocol":"TCP","port":0}},{"portRange":{"start":0,"end":70000}}]}]`},
		{jpath{"spec", "egress"}, `[{"action":"Pass","to":[{"pods":{}}],"ports":[]}]`},
		{jpath{"spec", "ingress"}, `[{"action":"Allow","from":[{"pods":{"podSelector":{}}}],"ports":null}]`},
		{jpath{"spec", "subject"}, `{"namespaces":{}}`},
		{jpath{"spec", "subject"}, `{}`},
		{jpath{"spec", "subject"}, `{"namespaces":{},"pods":{"namespaceSelector":{},"podSelector":{}}}`},
		{jpath{"spec", "ingress"}, `[{"action":"Allow","from":[{}]},{"action":"Bogus","from":[{"namespaces":{}}],"ports":[{}]}]`},
		{jpath{"spec", "egress"}, `[{"action":"Deny","to":[{"nodes":{}},{"networks":["10.0.0.0/8"]}],"ports":[{"portRange":{"start":90,"end":80}},{"namedPort":""}]}]`},
		{jpath{"spec", "priority"}, `null`},
	},
	"BaselineAdminNetworkPolicy": {
		{jpath{"spec", "subject"}, `{}`},
		{jpath{"spec", "ingress"}, `[{"action":"Pass","from":[{"namespaces":{}}]}]`},
	},
	"Namespace": {{jpath{"metadata", "labels"}, `null`}, {jpath{"metadata", "name"}, `""`}, {jpath{"metadata", "name"}, `"ingress-controller-ns"`}},
}

func pathStr(p jpath) string {
	var parts []string
	for _, k := range p {
		parts = append(parts, fmt.Sprint(k))
	}
	return strings.Join(parts, ".")
}

func mutateDoc(t *rapid.T, doc map[string]interface{}, others []map[string]interface{}, label string) (map[string]interface{}, string) {
	d := deepCopy(doc).(map[string]interface{})
	kind, _ := d["kind"].(string)
	m := rapid.SampledFrom([]string{"del", "null", "retype", "empty", "hostile", "bigint", "dup", "drop", "graft", "graft", "valueaware", "valueaware", "swapkind", "seedgraft"}).Draw(t, label+"mut")
	if m == "graft" {
		gs := c12Grafts[kind]
		if len(gs) == 0 {
			m = "del"
		} else {
			g := gs[rapid.IntRange(0, len(gs)-1).Draw(t, label+"g")]
			var v interface{}
			_ = json.Unmarshal([]byte(g.Val), &v)
			setAt(d, g.Path, v, false)
			return d, fmt.Sprintf("%s:%s:graft:%s", kind, pathStr(g.Path), g.Val)
		}
	}
	if m == "swapkind" && len(others) > 0 {
		o := others[rapid.IntRange(0, len(others)-1).Draw(t, label+"sk")]
		d["kind"], d["apiVersion"] = o["kind"], o["apiVersion"]
		return d, fmt.Sprintf("%s:kind:swapkind:%v", kind, o["kind"])
	}
	if m == "seedgraft" {
		// copy a subtree found at the same path in another document of the same kind
		var same []map[string]interface{}
		for _, o := range c12Seeds.byKind[kind] {
			same = append(same, o)
		}
		if len(same) > 0 {
			o := same[rapid.IntRange(0, len(same)-1).Draw(t, label+"sg")]
			var ps []jpath
			allPaths(o, nil, &ps)
			if len(ps) > 0 {
				p := ps[rapid.IntRange(0, len(ps)-1).Draw(t, label+"sgp")]
				setAt(d, p, deepCopy(getAt(o, p)), false)
				return d, fmt.Sprintf("%s:%s:seedgraft", kind, pathStr(p))
			}
		}
		m = "del"
	}
	var ps []jpath
	allPaths(d, nil, &ps)
	var cand []jpath
	for _, p := range ps {
		if k, ok := p[0].(string); ok && (k == "kind" || k == "apiVersion") && len(p) == 1 {
			continue
		}
		cand = append(cand, p)
		// weight 10:1 the paths whose last key is read by the analyzer
		last := p[len(p)-1]
		if li, ok := last.(int); ok && len(p) >= 2 {
			_ = li
			last = p[len(p)-2]
		}
		if ks, ok := last.(string); ok && c12HotKeys[ks] {
			for i := 0; i < 9; i++ {
				cand = append(cand, p)
			}
		}
	}
	if len(cand) == 0 {
		return d, kind + ":none"
	}
	p := cand[rapid.IntRange(0, len(cand)-1).Draw(t, label+"path")]
	cur := getAt(d, p)
	if m == "valueaware" {
		switch x := cur.(type) {
		case string:
			switch {
			case cidrRe.MatchString(x):
				setAt(d, p, rapid.SampledFrom(hostileCIDR).Draw(t, label+"hc"), false)
			case ipRe.MatchString(x):
				setAt(d, p, rapid.SampledFrom(hostileIP).Draw(t, label+"hi"), false)
			case x == "TCP" || x == "UDP" || x == "SCTP":
				setAt(d, p, rapid.SampledFrom([]string{"tcp", "ICMP", "", "udp"}).Draw(t, label+"hp"), false)
			case x == "Allow" || x == "Deny" || x == "Pass":
				setAt(d, p, rapid.SampledFrom([]string{"pass", "Block", "", "Pass", "Allow"}).Draw(t, label+"ha"), false)
			default:
				setAt(d, p, rapid.SampledFrom([]interface{}{"", strings.Repeat("n", 260), "a/b/c", "-", 7, "ingress-controller-ns", "ingress-controller", "representative-pod", "default"}).Draw(t, label+"hn"), false)
			}
		case float64, int, int64:
			setAt(d, p, rapid.SampledFrom([]interface{}{0, -1, 65536, 65535, "80", 2147483648, 1.5}).Draw(t, label+"hnum"), false)
		case bool:
			setAt(d, p, nil, false)
		default:
			m = "null"
			setAt(d, p, nil, false)
		}
		return d, fmt.Sprintf("%s:%s:%s", kind, pathStr(p), m)
	}
	switch m {
	case "del":
		setAt(d, p, nil, true)
	case "null":
		setAt(d, p, nil, false)
	case "retype":
		setAt(d, p, rapid.SampledFrom([]interface{}{5, "str", true, []interface{}{}, map[string]interface{}{}, []interface{}{1}, map[string]interface{}{"a": "b"}, []interface{}{nil}}).Draw(t, label+"rt"), false)
	case "empty":
		switch cur.(type) {
		case []interface{}:
			setAt(d, p, []interface{}{}, false)
		case map[string]interface{}:
			setAt(d, p, map[string]interface{}{}, false)
		default:
			setAt(d, p, "", false)
		}
	case "hostile":
		setAt(d, p, rapid.SampledFrom(hostileStr).Draw(t, label+"hs"), false)
	case "bigint":
		setAt(d, p, rapid.SampledFrom([]interface{}{0, -1, 65536, 2147483648, int64(9223372036854775807)}).Draw(t, label+"bi"), false)
	case "dup":
		if l, ok := cur.([]interface{}); ok && len(l) > 0 {
			setAt(d, p, append(append([]interface{}{}, l...), deepCopy(l[0])), false)
		}
	case "drop":
		if l, ok := cur.([]interface{}); ok && len(l) > 0 {
			setAt(d, p, l[1:], false)
		}
	}
	return d, fmt.Sprintf("%s:%s:%s", kind, pathStr(p), m)
}

func genC12(t *rapid.T) *C12Case {
	c12LoadSeeds()
	c := &C12Case{CLI: rapid.IntRange(0, 9).Draw(t, "cli") == 0}
	var docs []map[string]interface{}
	var w *World
	switch rapid.IntRange(0, 6).Draw(t, "ctx") {
	case 0, 1:
		w = GenWorld(t, GenCfg{Admin: true, MaxWl: 3, MaxNP: 2, MaxANP: 2})
	case 2, 3:
		w = GenIngressWorld(t, false)
	case 4:
		// every workload protected by IP-block-only policies: reports with empty sections
		w = GenWorld(t, GenCfg{MaxWl: 3, MaxNP: 1})
		SealWorld(t, w)
	default:
		w = GenWorld(t, GenCfg{MaxWl: 3, MaxNP: 2})
	}
	for _, d := range w.Docs() {
		var m map[string]interface{}
		_ = yaml.Unmarshal(d.YAML(), &m)
		docs = append(docs, m)
	}
	for i := range w.Workloads {
		if w.Workloads[i].Kind == "Pod" || isOwned(w.Workloads[i].Kind) {
			c.EvalPods = append(c.EvalPods, evalPodNames(&w.Workloads[i])[0])
		}
	}
	if rapid.IntRange(0, 7).Draw(t, "dualstack") == 0 {
		// a dual-stack cluster: the first ipBlock of every NetworkPolicy of the context names an IPv6 network (valid input)
		v6 := rapid.SampledFrom([]string{"fd00:10:244::/56", "2001:db8::/32", "::/0", "fe80::/10"}).Draw(t, "dualstackcidr")
		for _, d := range docs {
			if d["kind"] != "NetworkPolicy" {
				continue
			}
			spec, _ := d["spec"].(map[string]interface{})
			done := false
			for _, dirKey := range [][2]string{{"ingress", "from"}, {"egress", "to"}} {
				rules, _ := spec[dirKey[0]].([]interface{})
				for _, r := range rules {
					rm, _ := r.(map[string]interface{})
					peers, _ := rm[dirKey[1]].([]interface{})
					for _, pe := range peers {
						pm, _ := pe.(map[string]interface{})
						if ib, ok := pm["ipBlock"].(map[string]interface{}); ok && !done {
							ib["cidr"] = v6
							delete(ib, "except")
							done = true
						}
					}
				}
			}
		}
		c.Desc = append(c.Desc, "context: dual-stack ipBlocks "+v6)
	}
	nctx := len(docs)
	nm := rapid.IntRange(1, 3).Draw(t, "nmut")
	for i := 0; i < nm; i++ {
		var src map[string]interface{}
		srcIdx := -1
		l := fmt.Sprintf("m%d", i)
		if len(c12Seeds.kinds) > 0 && rapid.Bool().Draw(t, l+"fromrepo") {
			k := c12Seeds.kinds[rapid.IntRange(0, len(c12Seeds.kinds)-1).Draw(t, l+"kind")]
			src = c12Seeds.byKind[k][rapid.IntRange(0, len(c12Seeds.byKind[k])-1).Draw(t, l+"doc")]
		} else {
			srcIdx = rapid.IntRange(0, nctx-1).Draw(t, l+"wdoc")
			src = docs[srcIdx]
		}
		md, desc := mutateDoc(t, src, docs[:nctx], l)
		if rapid.IntRange(0, 3).Draw(t, l+"twice") == 0 {
			var d2 string
			md, d2 = mutateDoc(t, md, docs[:nctx], l+"b")
			desc += " + " + d2
		}
		if srcIdx >= 0 && rapid.IntRange(0, 2).Draw(t, l+"replace") > 0 {
			// two thirds of the documents mutated from the context REPLACE their original (a copy next to the original
			// of a policy is a name conflict: the run ends before the mutated copy is ever evaluated)
			docs[srcIdx] = md
			desc += " (replaces the original)"
		} else {
			docs = append(docs, md)
		}
		c.Desc = append(c.Desc, desc)
	}
	var parts []string
	for _, d := range docs {
		b, err := yaml.Marshal(d)
		if err != nil {
			continue
		}
		parts = append(parts, string(b))
	}
	content := strings.Join(parts, "---\n")
	// byte-level mutations for a minority, so that most cases survive decoding
	if rapid.IntRange(0, 9).Draw(t, "bytes") == 0 {
		switch rapid.IntRange(0, 4).Draw(t, "bytekind") {
		case 0:
			n := rapid.IntRange(0, len(content)).Draw(t, "trunc")
			content = content[:n]
			c.Desc = append(c.Desc, "bytes:truncate")
		case 1:
			n := rapid.IntRange(0, len(content)).Draw(t, "splice")
			content = content[:n] + string(rapid.SliceOfN(rapid.Byte(), 1, 12).Draw(t, "garbage")) + content[n:]
			c.Desc = append(c.Desc, "bytes:splice")
		case 2:
			content = strings.Replace(content, "  ", "\t", rapid.IntRange(1, 3).Draw(t, "tabs"))
			c.Desc = append(c.Desc, "bytes:tabs")
		case 3:
			content = strings.Replace(content, "---\n", "---\n---\n", 2)
			c.Desc = append(c.Desc, "bytes:dupsep")
		default:
			content = "{" + content
			c.Desc = append(c.Desc, "bytes:brace")
		}
	}
	c.Files = []C12File{{Path: "a.yaml", Content: content}}
	return c
}

var repoFrame = regexp.MustCompile(`netpol-analyzer/pkg/[^\s(]+\([^)]*\)[^\n]*|netpol-analyzer/pkg/[^\s(]+`)

func panicSig(r interface{}, stack string) string {
	top := "?"
	for _, line := range strings.Split(stack, "\n") {
		if strings.Contains(line, "netpol-analyzer/") && !strings.Contains(line, ".go:") {
			top = strings.TrimSpace(line)
			if i := strings.Index(top, "("); i > 0 {
				top = top[:i]
			}
			break
		}
	}
	return fmt.Sprintf("%s | %v", top, r)
}

func guardCall(name string, f func()) (sig string) {
	defer func() {
		if r := recover(); r != nil {
			sig = name + ": " + panicSig(r, string(debug.Stack()))
		}
	}()
	f()
	return ""
}

func checkC12(c *C12Case, st *VStats) *VFailure {
	dir := mkScratch()
	defer os.RemoveAll(dir)
	for _, f := range c.Files {
		writeFile(filepath.Join(dir, filepath.Base(f.Path)), []byte(f.Content))
	}
	repo := os.Getenv("VERIF_REPO")
	if repo == "" {
		repo = "/repo"
	}
	base := filepath.Join(repo, "tests", "netpol-analysis-example-minimal")
	type result struct {
		f        *VFailure
		analysed bool
	}
	done := make(chan result, 1)
	go func() {
		var res result
		rec := func(sig string) {
			if sig != "" && res.f == nil {
				res.f = &VFailure{Msg: "panic in " + sig + "\nmutations: " + strings.Join(c.Desc, " ; ")}
			}
		}
		// every format with and without exposure (the formatters differ in what they do with empty sections)
		for _, f := range listFormats {
			f := f
			rec(guardCall("list -o "+f, func() { listRaw(dir, false, f) }))
			rec(guardCall("list --exposure -o "+f, func() { listRaw(dir, true, f) }))
		}
		// options meeting in one invocation: focus (a workload of the input, or the reserved name) + exposure + format
		foc := "ingress-controller"
		if len(c.EvalPods) > 0 {
			_, foc, _ = strings.Cut(c.EvalPods[0], "/")
		}
		for _, f := range []string{"json", "dot"} {
			f := f
			rec(guardCall("list --exposure --focusworkload "+foc+" -o "+f, func() { listRawFocus(dir, true, f, foc, false) }))
		}
		rec(guardCall("list --focusworkload ingress-controller", func() { listRawFocus(dir, false, "txt", "ingress-controller", false) }))
		rec(guardCall("list --exposure (stop on error) -o md", func() { listRawFocus(dir, true, "md", "", true) }))
		rec(guardCall("diff(mutated, base)", func() { diffRaw(dir, base) }))
		rec(guardCall("diff(base, mutated)", func() { diffRaw(base, dir) }))
		rec(guardCall("diff(mutated, base) (stop on error)", func() { diffRawOne(dir, base, "txt", true) }))
		rec(guardCall("diff(base, mutated) (stop on error)", func() { diffRawOne(base, dir, "md", true) }))
		rec(guardCall("eval", func() {
			objs := parseDir(dir)
			engines := []*eval.PolicyEngine{}
			if pe, err := eval.NewPolicyEngineWithObjects(objs); err == nil {
				engines = append(engines, pe)
			}
			pe2 := eval.NewPolicyEngine()
			ok := true
			for i := range objs {
				if ro := rtObject(&objs[i]); ro != nil {
					if err := pe2.InsertObject(ro); err != nil {
						ok = false
						break
					}
				}
			}
			if ok {
				engines = append(engines, pe2)
			}
			for _, pe := range engines {
				var names []string
				for n := range pe.GetPodsMap() {
					names = append(names, n)
				}
				sort.Strings(names)
				if len(names) >= 1 {
					a, b := names[0], names[len(names)-1]
					_, _ = pe.CheckIfAllowed(a, b, "TCP", "80")
					_, _ = pe.CheckIfAllowed(b, a, "udp", "53")
					_, _ = pe.CheckIfAllowed(a, "10.1.2.3", "UDP", "53")
					_, _ = pe.CheckIfAllowed("10.1.2.3", b, "SCTP", "1")
					_, _ = pe.CheckIfAllowed("192.168.49.2", b, "TCP", "1")
					_, _ = pe.CheckIfAllowed(a, b, "TCP", "http")
					// query peers are input too: IPv6 literals, CIDRs, garbage, unknown pods
					for _, hp := range []string{"fe80::1", "::1", "2001:db8::/32", "10.0.0.0/33", "300.1.1.1", "", "no-such-pod", "ns/", "/x", "10.0.0.0/8"} {
						_, _ = pe.CheckIfAllowed(a, hp, "TCP", "80")
						_, _ = pe.CheckIfAllowed(hp, b, "udp", "53")
					}
					_, _ = pe.CheckIfAllowed(a, b, "ICMP", "80")
					_, _ = pe.CheckIfAllowed(a, b, "TCP", "-1")
					_, _ = pe.CheckIfAllowed(a, b, "TCP", "70000")
					_, _ = pe.CheckIfAllowed(a, b, "", "")
				}
			}
		}))
		if res.f == nil {
			res.analysed = RunList(dir, ListOpts{}).Err == nil
		}
		done <- res
	}()
	var res result
	select {
	case res = <-done:
	case <-time.After(180 * time.Second):
		return &VFailure{Msg: "analysis did not terminate within 180 s\nmutations: " + strings.Join(c.Desc, " ; "), Sig: "timeout"}
	}
	if res.f != nil {
		return res.f
	}
	if c.CLI && os.Getenv("VERIF_CLI") != "" {
		cmds := [][]string{{"list", "--dirpath", dir, "-q"}, {"list", "--dirpath", dir, "--exposure", "-o", "dot", "-q"}, {"diff", "--dir1", dir, "--dir2", base, "-q"}}
		if len(c.EvalPods) > 0 {
			sns, sn, _ := strings.Cut(c.EvalPods[0], "/")
			dns, dn, _ := strings.Cut(c.EvalPods[len(c.EvalPods)-1], "/")
			cmds = append(cmds, []string{"eval", "--dirpath", dir, "-s", sn, "-n", sns, "-d", dn, "--destination-namespace", dns, "-p", "80"},
				[]string{"eval", "--dirpath", dir, "-s", sn, "-n", sns, "--destination-ip", "fe80::1", "-p", "http", "--protocol", "udp"},
				[]string{"eval", "--dirpath", dir, "--source-ip", "10.1.2.3", "-d", dn, "--destination-namespace", dns, "-p", "65535", "--fail"})
		}
		for _, args := range cmds {
			_, se, code := runCLI(args...)
			st.Class("CLI invocation")
			if code > 1 || code < 0 || strings.Contains(se, "panic:") || strings.Contains(se, "goroutine ") {
				return vfail("`k8snetpolicy %s` crashed (exit %d): %s\nmutations: %s", strings.Join(args, " "), code, lastLines(se, 4), strings.Join(c.Desc, " ; "))
			}
		}
	}
	var flat []string
	for _, d := range c.Desc {
		flat = append(flat, strings.Split(d, " + ")...)
	}
	for _, d := range flat {
		parts := strings.SplitN(d, ":", 3)
		st.Class("kind " + parts[0])
		if len(parts) == 3 {
			st.Class("mutation " + strings.SplitN(parts[2], ":", 2)[0])
		}
	}
	if res.analysed {
		st.Class("analysed (list returned a result)")
		st.NonTrivialKeyed(strings.Join(c.Desc, ";"), map[string]interface{}{"mutations": c.Desc, "file": c.Files[0].Content})
	} else {
		st.Class("rejected (list returned an error)")
	}
	st.Points(1)
	return nil
}

func init() { vRegister("C12", checkC12) }

func TestC12(t *testing.T) { vRunProp(t, "C12", genC12, checkC12) }

func FuzzC12(f *testing.F) { vFuzzProp(f, "C12", genC12, checkC12) }
