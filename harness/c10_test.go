package harness

import (
	"fmt"
	"os"
	"sort"
	"strings"
	"testing"

	"pgregory.net/rapid"
)

// ---------- C10: ingress-controller lines follow Ingress/Route -> Service -> workload + policies ----------

type C10Case struct {
	W *World
}

func genC10(t *rapid.T) *C10Case { return &C10Case{W: GenIngressWorld(t, true)} }

func sortedInts(m map[int]bool) []int {
	var k []int
	for x := range m {
		k = append(k, x)
	}
	sort.Ints(k)
	return k
}

func checkC10(c *C10Case, st *VStats) *VFailure {
	w := c.W
	dir := w.WriteDir()
	defer os.RemoveAll(dir)
	res := RunList(dir, ListOpts{})
	if res.Panic != nil {
		return &VFailure{Msg: fmt.Sprintf("list panicked: %v", res.Panic), Sig: "panic"}
	}
	if res.Err != nil {
		st.Class("skip: list returned an error")
		return nil
	}
	// an arbitrary unlabeled pod in a namespace unknown to the input
	fake := &Workload{Ns: "ingress-controller-ns", Name: "ingress-controller", Kind: "Pod"}
	nontrivial := false
	for i := range w.Workloads {
		W := &w.Workloads[i]
		cand, targeted := ingressPorts(w, W, false)
		want := map[int]bool{}
		for p := range cand {
			if w.Allowed(End{W: fake}, End{W: W}, "TCP", p) {
				want[p] = true
			}
		}
		got := map[int]bool{}
		key := peerKey("{ingress-controller}", W.PeerString())
		cs := res.Conns[key]
		if cs != nil {
			if cs.All {
				return vfail("ingress-controller line for %s reports all connections; it must be a set of TCP container ports", W.PeerString())
			}
			for proto, rs := range cs.M {
				if proto != "TCP" {
					return vfail("ingress-controller line for %s reports protocol %s (%s); only TCP container ports are reachable through Ingress/Route", W.PeerString(), proto, cs.Str())
				}
				for _, r := range rs {
					if r.Hi-r.Lo > 64 {
						return vfail("ingress-controller line for %s reports a wide range %s", W.PeerString(), cs.Str())
					}
					for p := r.Lo; p <= r.Hi; p++ {
						got[p] = true
					}
				}
			}
		}
		st.Points(1)
		if fmt.Sprint(sortedInts(want)) != fmt.Sprint(sortedInts(got)) {
			f := vfail("{ingress-controller} => %s: expected TCP %v, reported TCP %v (ports reachable through Ingress/Route->Service->targetPort before policies: %v)", W.PeerString(), sortedInts(want), sortedInts(got), sortedInts(cand))
			// signature of the recorded finding F-C10-2: the report equals what the model gives when an Ingress
			// backend port *number* is also matched against a service port's numeric targetPort
			lcand, _ := ingressPorts(w, W, true)
			lwant := map[int]bool{}
			for p := range lcand {
				if w.Allowed(End{W: fake}, End{W: W}, "TCP", p) {
					lwant[p] = true
				}
			}
			if fmt.Sprint(sortedInts(lwant)) == fmt.Sprint(sortedInts(got)) && fmt.Sprint(sortedInts(lcand)) != fmt.Sprint(sortedInts(cand)) {
				f.Sig = "ingress-port-number-matches-targetport"
			}
			return f
		}
		if len(cand) > 0 && len(want) == 0 {
			st.Class("targeted but blocked by policies")
			found := false
			for _, e := range res.Errs {
				if strings.Contains(e.Msg, W.PeerString()) && !e.Fatal {
					found = true
				}
			}
			if !found {
				return vfail("policies block every connection from the ingress controller to %s (candidates %v) but no warning in Errors() names it: %+v", W.PeerString(), sortedInts(cand), res.Errs)
			}
		}
		if targeted {
			st.Class("workload targeted by a service of an Ingress/Route")
		}
		if len(cand) > 0 {
			// through a service port whose targetPort differs from its port or is named
			for _, sv := range w.Services {
				if sv.Ns == W.Ns && superset(W.Labels, sv.Selector) {
					for _, sp := range sv.Ports {
						if sp.TargetName != "" || (sp.TargetNum != 0 && sp.TargetNum != sp.Port) {
							nontrivial = true
						}
					}
				}
			}
		}
	}
	// no line for anything that is not a workload of the input
	for k := range res.Conns {
		s, d := splitKey(k)
		if s == "{ingress-controller}" && w.FindWorkload(d) == nil {
			return vfail("ingress-controller line to %s which is not a workload of the input", d)
		}
		if d == "{ingress-controller}" {
			return vfail("the ingress controller is reported as a destination: %s", k)
		}
	}
	if len(w.Routes) > 0 {
		st.Class("has Route")
	}
	if len(w.Ingresses) > 0 {
		st.Class("has Ingress")
	}
	if nontrivial {
		st.NonTrivialCase(c)
	}
	return nil
}

func init() { vRegister("C10", checkC10) }

func TestC10(t *testing.T) { vRunProp(t, "C10", genC10, checkC10) }
