package harness

import (
	"fmt"
	"os"
	"regexp"
	"strings"
	"testing"

	"pgregory.net/rapid"
)

// ---------- C09: every output format faithfully encodes the computed result ----------

type C09Case struct {
	A, B     *World // B: second world for the diff formats (nil => list only)
	Exposure bool
	Focus    string
}

var listFormats = []string{"txt", "json", "csv", "md", "dot"}
var diffFormats = []string{"txt", "csv", "md", "dot"}

func genC09(t *rapid.T) *C09Case {
	c := &C09Case{}
	switch rapid.IntRange(0, 3).Draw(t, "worldkind") {
	case 0:
		c.A = GenWorld(t, GenCfg{Admin: true, NoNamedRisk: true})
	case 1:
		c.A = GenIngressWorld(t, true)
	case 2:
		c.A = GenExposureWorld(t)
		c.Exposure = true
	default:
		c.A = GenWorld(t, GenCfg{NoNamedRisk: true, OmitNs: true})
		c.Exposure = rapid.Bool().Draw(t, "exposure")
	}
	if rapid.Bool().Draw(t, "stressp") {
		stressPorts(t, c.A)
	}
	if rapid.Bool().Draw(t, "stressi") {
		stressIPs(t, c.A)
	}
	if rapid.IntRange(0, 3).Draw(t, "focus") == 0 && len(c.A.Workloads) > 0 {
		wl := c.A.Workloads[rapid.IntRange(0, len(c.A.Workloads)-1).Draw(t, "fw")]
		c.Focus = wl.Name
		if rapid.Bool().Draw(t, "fwns") {
			c.Focus = wl.Ns + "/" + wl.Name
		}
	}
	if rapid.Bool().Draw(t, "withdiff") {
		if !c.Exposure && rapid.IntRange(0, 2).Draw(t, "sparse") == 0 {
			// a diff of a handful of entries of different categories (changed ingress line + one added line, ...)
			c.A, c.B = genSparseDiffPair(t)
			c.Focus = ""
		} else if rapid.IntRange(0, 3).Draw(t, "independent") == 0 {
			c.B = GenWorld(t, GenCfg{NoNamedRisk: true})
		} else {
			c.B = editWorld(t, c.A)
		}
	}
	return c
}

func checkC09(c *C09Case, st *VStats) *VFailure {
	dir := c.A.WriteDir()
	defer os.RemoveAll(dir)
	var api []Triple
	var apiX []XTriple    // (W, dir, "entire-cluster" | "potential", conn)
	var apiXIPs []XTriple // IP lines repeated in exposure sections of tabular formats
	var apiXFull []apiXEntry
	var apiUnprot []string
	var parsed = map[string]*ParsedList{}
	for _, f := range listFormats {
		r := RunList(dir, ListOpts{Exposure: c.Exposure, Focus: c.Focus, Format: f, WantOutput: true})
		if r.Panic != nil {
			return &VFailure{Msg: fmt.Sprintf("list -o %s panicked: %v", f, r.Panic), Sig: "panic"}
		}
		if r.Err != nil {
			st.Class("skip: list returned an error")
			return nil
		}
		if r.OutErr != nil {
			return vfail("ConnectionsListToString fails for format %s: %v", f, r.OutErr)
		}
		if r.Out2 != r.Out {
			return vfail("format %s: rendering the same result a second time on the same analyzer gives a different text: %s", f, firstDiff(r.Out, r.Out2))
		}
		if api == nil {
			api = []Triple{}
			for _, k := range r.Keys {
				s, d := splitKey(k)
				api = append(api, Triple{s, d, r.Conns[k].ConnString()})
			}
			sortTriples(api)
			for _, ep := range r.Exposed {
				for _, dd := range []struct {
					dir  string
					prot bool
					ents []XEntry
				}{{"Ingress", ep.ProtIn, ep.In}, {"Egress", ep.ProtEg, ep.Eg}} {
					if !dd.prot {
						apiX = append(apiX, XTriple{ep.Peer, dd.dir, "entire-cluster", "All Connections"})
						apiUnprot = append(apiUnprot, ep.Peer+" is not protected on "+dd.dir)
					} else {
						for _, e := range dd.ents {
							if ok, why := e.Conn.TextAgreesWithAPI(); !ok {
								return vfail("exposure entry of %s (%s): the printed connection (used by every format) does not encode the returned value: %s", ep.Peer, dd.dir, why)
							}
							des := "potential"
							if e.Entire {
								des = "entire-cluster"
							}
							apiX = append(apiX, XTriple{ep.Peer, dd.dir, des, e.Conn.Raw})
							if !e.Entire {
								apiXFull = append(apiXFull, apiXEntry{ep.Peer, dd.dir, e.Conn.Raw, e.Ns, e.Pod})
							}
						}
					}
				}
				for _, t3 := range api {
					if t3.Src == ep.Peer && isIPPeerStr(t3.Dst) {
						apiXIPs = append(apiXIPs, XTriple{ep.Peer, "Egress", t3.Dst, t3.Conn})
					}
					if t3.Dst == ep.Peer && isIPPeerStr(t3.Src) {
						apiXIPs = append(apiXIPs, XTriple{ep.Peer, "Ingress", t3.Src, t3.Conn})
					}
				}
			}
			sortXTriples(apiX)
			sortXTriples(apiXIPs)
		}
		p, err := ParseList(f, r.Out)
		if err != nil {
			return vfail("format %s cannot be parsed back: %v\n%s", f, err, r.Out)
		}
		parsed[f] = p
		if fmt.Sprint(p.Conns) != fmt.Sprint(api) {
			return vfail("format %s encodes a different set of (src,dst,conn) triples than the analysis returned\nreturned: %v\nencoded:  %v", f, api, p.Conns)
		}
		if c.Exposure {
			// compare with the API values up to the spelling of the designation
			var enc []XTriple
			for _, x := range p.Exposure {
				des := "potential"
				if x.Peer == "entire-cluster" {
					des = x.Peer
				}
				if strings.HasPrefix(x.Peer, "?unparsed") {
					return vfail("format %s: %s", f, x.Peer)
				}
				enc = append(enc, XTriple{x.W, x.Dir, des, x.Conn})
			}
			sortXTriples(enc)
			if fmt.Sprint(enc) != fmt.Sprint(apiX) {
				return vfail("format %s encodes different exposure entries than ExposedPeers() returned\nreturned: %v\nencoded:  %v", f, apiX, enc)
			}
			if f != "dot" && fmt.Sprint(p.ExposureIPs) != fmt.Sprint(apiXIPs) {
				return vfail("format %s: the IP entries of the exposure sections differ from the workload<->IP connections of the exposed workloads\nexpected: %v\nencoded:  %v", f, apiXIPs, p.ExposureIPs)
			}
			if f == "txt" {
				sortStrings(apiUnprot)
				if fmt.Sprint(p.Unprotected) != fmt.Sprint(apiUnprot) {
					return vfail("txt: the unprotected-workloads section differs from the protected flags\nexpected: %v\nencoded:  %v", apiUnprot, p.Unprotected)
				}
			}
		} else if p.HasExposure {
			return vfail("format %s has an exposure section although exposure analysis is off", f)
		}
	}
	// the designation of every potential-peer entry names the selectors the analysis returned: every label key and
	// value of the entry's namespace and pod selectors occurs in the designation text (checked by content, not wording)
	if c.Exposure {
		if f := designationsNameSelectors(apiXFull, parsed["txt"].Exposure); f != nil {
			return f
		}
	}
	// parsing any format back yields the same relation as every other format (incl. designations)
	if c.Exposure {
		ref := parsed["txt"]
		for _, f := range listFormats[1:] {
			if fmt.Sprint(parsed[f].Exposure) != fmt.Sprint(ref.Exposure) {
				return vfail("formats txt and %s encode different exposure relations\ntxt: %v\n%s: %v", f, ref.Exposure, f, parsed[f].Exposure)
			}
		}
	}
	st.Points(len(api) * len(listFormats))
	multi := false
	for _, t3 := range api {
		if strings.Count(t3.Conn, ",") >= 1 {
			multi = true
		}
	}
	nontrivial := (len(api) >= 3 && multi) || len(apiX) > 0
	if c.Focus != "" {
		st.Class("with focus workload")
	}
	if c.Exposure {
		st.Class("exposure on")
	}
	for _, t3 := range api {
		if strings.HasPrefix(t3.Src, "{") {
			st.Class("ingress-controller lines")
			break
		}
	}
	// ---- diff formats ----
	if c.B != nil {
		dirB := c.B.WriteDir()
		defer os.RemoveAll(dirB)
		var dapi, dapiAll []DTuple
		for _, f := range diffFormats {
			d := RunDiff(dir, dirB, DiffOpts{Format: f, WantOutput: true})
			if d.Panic != nil {
				return &VFailure{Msg: fmt.Sprintf("diff -o %s panicked: %v", f, d.Panic), Sig: "panic"}
			}
			if d.Err != nil {
				st.Class("skip: diff returned an error")
				break
			}
			if d.OutErr != nil {
				return vfail("ConnectivityDiffToString fails for format %s: %v", f, d.OutErr)
			}
			if d.Out2 != d.Out {
				return vfail("diff format %s: rendering the same diff a second time on the same analyzer gives a different text: %s", f, firstDiff(d.Out, d.Out2))
			}
			if dapi == nil {
				dapi, dapiAll = []DTuple{}, []DTuple{}
				for _, e := range d.Ents {
					// the workloads annotation is compared by content (which workloads, which change), not by wording
					var ws []string
					if e.NewSrc {
						ws = append(ws, e.Src)
					}
					if e.NewDst {
						ws = append(ws, e.Dst)
					}
					info := normDiffInfo(strings.Join(ws, " "), e.Typ, len(ws) > 0)
					c1, c2 := csetStrToConnString(e.C1), csetStrToConnString(e.C2)
					t := DTuple{e.Typ, e.Src, e.Dst, c1, c2, info}
					if e.Typ != "unchanged" {
						dapi = append(dapi, t)
					}
					t.Info = ""
					dapiAll = append(dapiAll, t)
				}
				sortDTuples(dapi)
				sortDTuples(dapiAll)
			}
			if d.Empty {
				// an empty diff (no added/removed/changed entry) prints nothing in any format
				if d.Out != "" {
					return vfail("diff -o %s: the diff is empty but the output is %q", f, d.Out)
				}
				continue
			}
			got, err := ParseDiff(f, d.Out)
			if err != nil {
				return vfail("diff format %s cannot be parsed back: %v\n%s", f, err, d.Out)
			}
			for i := range got {
				got[i].Info = normDiffInfo(got[i].Info, got[i].Typ, got[i].Info != "")
			}
			want := dapi
			if f == "dot" {
				want = dapiAll
				for i := range got {
					got[i].Info = ""
				}
			}
			if fmt.Sprint(got) != fmt.Sprint(want) {
				return vfail("diff format %s encodes different entries than the computed diff\ncomputed: %v\nencoded:  %v", f, want, got)
			}
			if f == "dot" {
				// dot carries the workload annotations as node colours: every peer of an entry is declared exactly once, new
				// workloads green, removed ones red, all others blue
				if fl := dotDiffNodes(d.Out, d.Ents); fl != nil {
					return fl
				}
			}
			st.Points(len(want))
		}
		if len(dapi) >= 2 {
			nontrivial = true
			st.Class("diff with >=2 entries")
		}
	}
	if nontrivial {
		st.NonTrivialCase(c)
	}
	return nil
}

var dotNode = regexp.MustCompile(`^\t+"((?:[^"\\]|\\.)*)" \[label="((?:[^"\\]|\\.)*)" color="([^"]*)" fontcolor="([^"]*)"\]$`)

func dotDiffNodes(out string, ents []DEnt) *VFailure {
	nodes := map[string][]string{}
	for _, l := range strings.Split(out, "\n") {
		if m := dotNode.FindStringSubmatch(l); m != nil {
			if m[3] != m[4] {
				return vfail("dot diff node %q has colour %q but font colour %q", m[1], m[3], m[4])
			}
			nodes[m[1]] = append(nodes[m[1]], m[3])
		}
	}
	want := map[string]string{}
	for _, e := range ents {
		for _, x := range []struct {
			p  string
			nw bool
		}{{e.Src, e.NewSrc}, {e.Dst, e.NewDst}} {
			col := "blue"
			if x.nw && e.Typ == "added" {
				col = "#008000"
			}
			if x.nw && e.Typ == "removed" {
				col = "red"
			}
			if old, ok := want[x.p]; ok && old != col && old != "blue" && col != "blue" {
				return vfail("the computed diff marks %s both as a new and as a removed workload", x.p)
			}
			if want[x.p] == "" || col != "blue" {
				want[x.p] = col
			}
		}
	}
	for p, col := range want {
		got := nodes[p]
		if len(got) != 1 || got[0] != col {
			return vfail("diff format dot: peer %s of the computed diff should be declared once with colour %q (new=green, removed=red, else blue); node declarations found: %q", p, col, got)
		}
	}
	for p := range nodes {
		if _, ok := want[p]; !ok {
			return vfail("diff format dot declares a node %q that is no peer of any computed entry", p)
		}
	}
	return nil
}

type apiXEntry struct {
	W, Dir, Conn string
	Ns, Pod      Selector
}

func selTokens(s *Selector) []string {
	var ts []string
	for k, v := range s.MatchLabels {
		ts = append(ts, k, v)
	}
	for _, e := range s.Exprs {
		ts = append(ts, e.Key)
		ts = append(ts, e.Values...)
	}
	return ts
}

// designationsNameSelectors: for every potential-peer entry returned by the analysis there is an encoded entry of the
// same workload, direction and connection whose designation contains every label key and value of its selectors; the
// matching is injective (two returned entries need two encoded ones).
func designationsNameSelectors(api []apiXEntry, enc []XTriple) *VFailure {
	// compat[i] = encoded entries that may stand for returned entry i
	compat := make([][]int, len(api))
	for ai, a := range api {
		nsTok, podTok := selTokens(&a.Ns), selTokens(&a.Pod)
		for i, x := range enc {
			if x.W != a.W || x.Dir != a.Dir || x.Conn != a.Conn || x.Peer == "entire-cluster" {
				continue
			}
			parts := strings.SplitN(x.Peer, " || ", 2)
			if len(parts) != 2 {
				continue
			}
			ok := true
			for _, t := range nsTok {
				// a namespace selector that is only the name label is printed as the bare name
				if t == nsNameKey && !strings.Contains(parts[0], t) && len(a.Ns.MatchLabels) == 1 && len(a.Ns.Exprs) == 0 {
					continue
				}
				if !strings.Contains(parts[0], t) {
					ok = false
				}
			}
			for _, t := range podTok {
				if !strings.Contains(parts[1], t) {
					ok = false
				}
			}
			if ok {
				compat[ai] = append(compat[ai], i)
			}
		}
	}
	// injective assignment by augmenting paths (the sets are small)
	matchOf := make([]int, len(enc))
	for i := range matchOf {
		matchOf[i] = -1
	}
	var try func(ai int, seen []bool) bool
	try = func(ai int, seen []bool) bool {
		for _, i := range compat[ai] {
			if seen[i] {
				continue
			}
			seen[i] = true
			if matchOf[i] < 0 || try(matchOf[i], seen) {
				matchOf[i] = ai
				return true
			}
		}
		return false
	}
	for ai, a := range api {
		if !try(ai, make([]bool, len(enc))) {
			return vfail("txt: no exposure line of %s (%s, %s) names the selectors the analysis returned: namespace %+v pod %+v; encoded entries: %v", a.W, a.Dir, a.Conn, a.Ns, a.Pod, enc)
		}
	}
	return nil
}

var wlInInfo = regexp.MustCompile(`[^\s/]+/[^\s/\[]+\[\w+\]`)

// normDiffInfo reduces a workloads-diff-info annotation to "<sorted workloads> <change>".
func normDiffInfo(text, typ string, present bool) string {
	if !present {
		return ""
	}
	ws := wlInInfo.FindAllString(text, -1)
	sortStrings(ws)
	change := typ
	if f := strings.Fields(text); len(f) > 0 && (f[len(f)-1] == "added" || f[len(f)-1] == "removed") {
		change = f[len(f)-1]
	}
	return strings.Join(ws, " ") + " " + change
}

// csetStrToConnString converts obs' canonical set rendering to the tool's spelling of the same set.
func csetStrToConnString(s string) string {
	switch s {
	case "none":
		return "No Connections"
	case "ALL":
		return "All Connections"
	}
	return s
}

func init() { vRegister("C09", checkC09) }

func TestC09(t *testing.T) { vRunProp(t, "C09", genC09, checkC09) }
