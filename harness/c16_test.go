package harness

import (
	"encoding/json"
	"fmt"
	"os"
	"regexp"
	"strconv"
	"strings"
	"testing"

	"pgregory.net/rapid"
)

var kindRe = regexp.MustCompile(`\[[A-Za-z]+\]$`)

// peerNsName splits "ns/name[Kind]" into ns and name; ok=false for IP peers and fake peers.
func peerNsName(p string) (ns, name string, ok bool) {
	if !strings.Contains(p, "[") || !strings.Contains(p, "/") {
		return "", "", false
	}
	nn := kindRe.ReplaceAllString(p, "")
	i := strings.Index(nn, "/")
	return nn[:i], nn[i+1:], true
}

func focusMatches(p, foc string) bool {
	if p == "{ingress-controller}" {
		return foc == "ingress-controller"
	}
	ns, name, ok := peerNsName(p)
	return ok && (name == foc || ns+"/"+name == foc)
}

// genAnyWorld draws one of the analysable world kinds.
func genAnyWorld(t *rapid.T) *World {
	var w *World
	switch rapid.IntRange(0, 2).Draw(t, "worldkind") {
	case 0:
		w = GenWorld(t, GenCfg{NoNamedRisk: true})
	case 1:
		w = GenWorld(t, GenCfg{Admin: true, NoNamedRisk: true})
	default:
		w = GenIngressWorld(t, true)
	}
	// now and then a namespace is called like a kubectl resource type or short name (a team called "ds", a namespace
	// "jobs"): a consistent rename of one namespace of the world, everywhere it is referred to
	if rapid.IntRange(0, 7).Draw(t, "anyoddns") == 0 {
		var cands []string
		for _, n := range w.Namespaces {
			if n.Name != "default" {
				cands = append(cands, n.Name)
			}
		}
		if len(cands) > 0 {
			from := cands[rapid.IntRange(0, len(cands)-1).Draw(t, "anyoddnsfrom")]
			to := rapid.SampledFrom([]string{"ds", "sts", "deploy", "po", "rs", "jobs", "pods", "cj", "deployment", "svc", "all"}).Draw(t, "anyoddnsto")
			w = renameNamespace(w, from, to)
		}
	}
	// now and then a real workload carries the name the tool reserves for its fake Ingress source
	if len(w.Workloads) > 0 && rapid.IntRange(0, 9).Draw(t, "anyreserved") == 0 {
		i := rapid.IntRange(0, len(w.Workloads)-1).Draw(t, "anyreservedwl")
		clash := false
		for j := range w.Workloads {
			if j != i && w.Workloads[j].Ns == w.Workloads[i].Ns && w.Workloads[j].Name == "ingress-controller" {
				clash = true
			}
		}
		if !clash {
			w.Workloads[i].Name = "ingress-controller"
		}
	}
	return w
}

// ---------- C16 ----------

type C16Case struct {
	W     *World
	Focus string
	// More: further focus values checked against the same unfocused report
	More []string `json:",omitempty"`
}

func genC16(t *rapid.T) *C16Case {
	var w *World
	if rapid.IntRange(0, 2).Draw(t, "adminheavy") == 0 {
		// several admin policies with different subjects: what is computed for one source may leak into another, and
		// the focus changes which sources are computed at all
		w = GenWorld(t, GenCfg{Admin: true, NoNamedRisk: true, MaxNP: 1})
	} else {
		w = genAnyWorld(t)
	}
	// a name shared by workloads of two namespaces is made likely
	if len(w.Workloads) >= 2 && rapid.IntRange(0, 3).Draw(t, "share") == 0 {
		a, b := &w.Workloads[0], &w.Workloads[1]
		if a.Ns != b.Ns {
			clash := false
			for i := range w.Workloads {
				if i != 1 && w.Workloads[i].Ns == b.Ns && w.Workloads[i].Name == a.Name {
					clash = true
				}
			}
			if !clash {
				b.Name = a.Name
				// both same-named workloads become Ingress/Route targets (a bare-name focus then has several ingress lines)
				if rapid.Bool().Draw(t, "sharetargets") {
					for i, x := range []*Workload{a, b} {
						if x.Labels == nil {
							x.Labels = map[string]string{}
						}
						x.Labels["app"] = "x1"
						x.Ports = append(x.Ports, CPort{Number: 8080 + i})
						sv := Svc{Ns: x.Ns, Name: fmt.Sprintf("fsvc%d", i), Selector: map[string]string{"app": "x1"}, Ports: []SvcPort{{Port: 80, TargetNum: 8080 + i}}}
						w.Services = append(w.Services, sv)
						if rapid.Bool().Draw(t, fmt.Sprintf("sharevia%d", i)) {
							w.Routes = append(w.Routes, Route{Ns: x.Ns, Name: fmt.Sprintf("frt%d", i), To: sv.Name})
						} else {
							w.Ingresses = append(w.Ingresses, Ing{Ns: x.Ns, Name: fmt.Sprintf("fing%d", i), Default: &Backend{Svc: sv.Name, PortNum: 80}})
						}
					}
				}
			}
		}
	}
	// a real workload carrying the name the tool reserves for its fake Ingress source
	if len(w.Workloads) > 0 && rapid.IntRange(0, 5).Draw(t, "reserved") == 0 {
		i := rapid.IntRange(0, len(w.Workloads)-1).Draw(t, "reservedwl")
		clash := false
		for j := range w.Workloads {
			if j != i && w.Workloads[j].Ns == w.Workloads[i].Ns && w.Workloads[j].Name == "ingress-controller" {
				clash = true
			}
		}
		if !clash {
			w.Workloads[i].Name = "ingress-controller"
		}
	}
	cands := []string{"zzz", "ns1/zzz", "nsX/a", "ingress-controller"}
	if rapid.IntRange(0, 3).Draw(t, "present") > 0 {
		cands = nil
		for _, wl := range w.Workloads {
			cands = append(cands, wl.Name, wl.Ns+"/"+wl.Name)
		}
		if len(w.Ingresses)+len(w.Routes) > 0 {
			cands = append(cands, "ingress-controller")
		}
	}
	c := &C16Case{W: w, Focus: rapid.SampledFrom(cands).Draw(t, "focus")}
	for i := 0; i < 2; i++ {
		c.More = append(c.More, rapid.SampledFrom(cands).Draw(t, fmt.Sprintf("focus%d", i+2)))
	}
	return c
}

func checkC16(c *C16Case, st *VStats) *VFailure {
	dir := c.W.WriteDir()
	defer os.RemoveAll(dir)
	base := RunList(dir, ListOpts{})
	if base.Panic != nil {
		return &VFailure{Msg: fmt.Sprintf("list panicked: %v", base.Panic), Sig: "panic"}
	}
	if base.Err != nil {
		st.Class("skip: unfocused run returned an error")
		return nil
	}
	for _, foc := range append([]string{c.Focus}, c.More...) {
		if f := checkFocus(c, foc, dir, base, st); f != nil {
			return f
		}
	}
	return nil
}

func checkFocus(cc *C16Case, focus, dir string, base *ListRes, st *VStats) *VFailure {
	c := &C16Case{W: cc.W, Focus: focus}
	fr := RunList(dir, ListOpts{Focus: c.Focus})
	if fr.Panic != nil {
		return &VFailure{Msg: fmt.Sprintf("focused list panicked: %v", fr.Panic), Sig: "panic"}
	}
	if fr.Err != nil {
		return vfail("list --focusworkload %q returned an error where the unfocused run succeeds: %v", c.Focus, fr.Err)
	}
	if len(fr.WF) > 0 {
		return vfail("ill-formed focused report: %s", strings.Join(fr.WF, "; "))
	}
	exists := false
	for _, p := range base.Wls {
		if focusMatches(p, c.Focus) {
			exists = true
		}
	}
	hasIngressSrc := len(c.W.Ingresses)+len(c.W.Routes) > 0
	if c.Focus == "ingress-controller" && hasIngressSrc {
		exists = true
	}
	exp := map[string]string{}
	for k, cs := range base.Conns {
		s, d := splitKey(k)
		if focusMatches(s, c.Focus) || focusMatches(d, c.Focus) {
			exp[k] = cs.Str()
		}
	}
	got := map[string]string{}
	for k, cs := range fr.Conns {
		got[k] = cs.Str()
	}
	if fmt.Sprint(exp) != fmt.Sprint(got) {
		return vfail("focus %q is not a pure filter of the full report\nexpected (filtered full report): %v\nfocused report:                  %v", c.Focus, exp, got)
	}
	// independent of the tool's own peer list: a workload OF THE INPUT that matches the focus must not be declared absent
	inWorld := false
	for i := range cc.W.Workloads {
		if focusMatches(cc.W.Workloads[i].PeerString(), c.Focus) {
			inWorld = true
		}
	}
	if inWorld {
		for _, e := range fr.Errs {
			if strings.Contains(e.Msg, "does not exist") && strings.Contains(e.Msg, c.Focus) {
				return vfail("focus %q: the input holds a workload of that name, yet the run warns %q", c.Focus, e.Msg)
			}
		}
		if !exists {
			return vfail("focus %q: the input holds a workload of that name, but no peer of the unfocused report matches it (peers %v)", c.Focus, base.Wls)
		}
	}
	if !exists {
		st.Class("focus matches no workload")
		if len(fr.Conns) != 0 {
			return vfail("focus %q matches nothing but entries are reported", c.Focus)
		}
		warned := false
		for _, e := range fr.Errs {
			if !e.Fatal && !e.Severe {
				warned = true
			}
			if e.Fatal || e.Severe {
				// the unfocused run may have had the same entry (e.g. blocked ingress warnings are not severe)
				same := false
				for _, b := range base.Errs {
					if b.Msg == e.Msg {
						same = true
					}
				}
				if !same {
					return vfail("focus %q matches nothing: expected a warning, got a severe/fatal entry %q", c.Focus, e.Msg)
				}
			}
		}
		if !warned {
			return vfail("focus %q matches nothing but no warning is recorded in Errors()", c.Focus)
		}
	}
	st.Points(len(base.Conns))
	if strings.Contains(c.Focus, "/") {
		st.Class("focus given as ns/name")
	}
	if len(exp) > 0 && len(exp) < len(base.Conns) {
		st.NonTrivialCase(cc)
	}
	return nil
}

func init() { vRegister("C16", checkC16) }

func TestC16(t *testing.T) { vRunProp(t, "C16", genC16, checkC16) }

// renameNamespace: every reference to a namespace is the exact JSON string of its name (Ns fields, the values of the
// kubernetes.io/metadata.name label in selectors), so renaming is a replacement of that quoted string in the encoding.
func renameNamespace(w *World, from, to string) *World {
	for _, n := range w.Namespaces {
		if n.Name == to {
			return w
		}
	}
	b, err := json.Marshal(w)
	if err != nil {
		panic(err)
	}
	out := &World{}
	if err := json.Unmarshal([]byte(strings.ReplaceAll(string(b), strconv.Quote(from), strconv.Quote(to))), out); err != nil {
		panic(err)
	}
	return out
}
