package harness

import (
	"fmt"
	"os"
	"strings"
	"testing"

	"pgregory.net/rapid"
)

// ---------- C17: connectivity is per workload, independent of replicas and controller kind ----------

type C17Case struct {
	A, B *World // B re-expresses workloads of A (kind, replicas); same names
	// Collide: B additionally contains a second workload whose name collides with an existing one across kinds
	Collide bool
	// StopOnError: both runs use the stop-on-first-error option (the inputs are clean, so it must not matter)
	StopOnError bool `json:",omitempty"`
}

// addNamesakes: two workloads of different namespaces share their NAME and a port name, with different numbers, and an
// egress rule open to all namespaces names that port. Synthesised replicas of both are called <name>-1; bare pods of a
// controller are not - what is computed per pod must not be remembered per pod NAME.
func addNamesakes(t *rapid.T, a *World) (idx int, ok bool) {
	if len(a.Namespaces) < 2 || len(a.ANPs) > 0 || a.BANP != nil {
		return 0, false
	}
	n1, n2 := a.Namespaces[0].Name, a.Namespaces[1].Name
	for _, x := range a.Workloads {
		if x.Name == "twinned" {
			return 0, false
		}
	}
	pn := rapid.SampledFrom(portNames).Draw(t, "nsakeport")
	k1 := rapid.SampledFrom([]string{"Deployment", "StatefulSet", "ReplicaSet", "DaemonSet"}).Draw(t, "nsakekind")
	a.Workloads = append(a.Workloads,
		Workload{Ns: n1, Name: "twinned", Kind: k1, Replicas: 1, Labels: map[string]string{"app": "x1"}, Ports: []CPort{{Name: pn, Number: 8080}}},
		Workload{Ns: n2, Name: "twinned", Kind: "Deployment", Replicas: 1, Labels: map[string]string{"app": "x2"}, Ports: []CPort{{Name: pn, Number: 9090}}})
	src := a.Namespaces[rapid.IntRange(0, len(a.Namespaces)-1).Draw(t, "nsakesrc")].Name
	a.NPs = append(a.NPs, NetPol{Ns: src, Name: "np-namesakes", PolicyTypes: []string{"Egress"},
		Egress: []Rule{{Peers: []Peer{{NsSel: &Selector{}}}, Ports: []PPort{{PortNam: pn}}}}})
	return len(a.Workloads) - 2, true
}

func genC17(t *rapid.T) *C17Case {
	a := genAnyWorld(t)
	// the generic namesake twin (bare Pod next to a controller workload of the same name) is dropped here: re-expressing
	// the twin as a controller kind IS the recorded finding F-C17-1; this check has its own namesakes (addNamesakes)
	seenNN := map[string]bool{}
	kept := a.Workloads[:0]
	for _, wl := range a.Workloads {
		if seenNN[wl.Ns+"/"+wl.Name] {
			continue
		}
		seenNN[wl.Ns+"/"+wl.Name] = true
		kept = append(kept, wl)
	}
	a.Workloads = kept
	nsake, hasNsake := -1, false
	if rapid.IntRange(0, 4).Draw(t, "namesakes") == 0 {
		nsake, hasNsake = addNamesakes(t, a)
	}
	b := a.Clone()
	if hasNsake {
		// one of the two namesakes is re-expressed as bare pods of a controller (unique pod names)
		b.Workloads[nsake].Kind = "Owned:ReplicaSet"
	}
	for i := range b.Workloads {
		if rapid.IntRange(0, 2).Draw(t, fmt.Sprintf("re%d", i)) > 0 {
			b.Workloads[i].Kind = rapid.SampledFrom(allKinds).Draw(t, fmt.Sprintf("k%d", i))
			b.Workloads[i].Replicas = rapid.IntRange(-1, 4).Draw(t, fmt.Sprintf("r%d", i))
		}
	}
	if rapid.IntRange(0, 3).Draw(t, "allone") == 0 {
		// every workload expressed as one and the same kind
		k := rapid.SampledFrom(allKinds).Draw(t, "allkind")
		for i := range b.Workloads {
			b.Workloads[i].Kind = k
		}
	}
	c := &C17Case{A: a, B: b, StopOnError: rapid.IntRange(0, 2).Draw(t, "stop") == 0}
	if rapid.IntRange(0, 4).Draw(t, "collide") == 0 && len(b.Workloads) > 0 {
		c.Collide = true
		src := b.Workloads[rapid.IntRange(0, len(b.Workloads)-1).Draw(t, "cw")]
		nw := genWorkload(t, "cnew", src.Ns, &GenCfg{})
		switch rapid.IntRange(0, 1).Draw(t, "ckind") {
		case 0: // same name, different kind
			nw.Name = src.Name
			for nw.Kind == src.Kind {
				nw.Kind = rapid.SampledFrom(allKinds).Draw(t, "cnk")
			}
		default: // bare pod named like a synthesised replica
			nw.Name = src.Name + "-1"
			nw.Kind = "Pod"
		}
		// must not coincide with another existing workload (same ns, name and kind)
		for _, x := range b.Workloads {
			if x.Ns == nw.Ns && x.Name == nw.Name && x.Kind == nw.Kind {
				c.Collide = false
			}
		}
		if c.Collide {
			b.Workloads = append(b.Workloads, nw)
		}
	}
	return c
}

func stripKinds(r *ListRes) map[string]string {
	m := map[string]string{}
	for k, cs := range r.Conns {
		s, d := splitKey(k)
		m[kindRe.ReplaceAllString(s, "")+";"+kindRe.ReplaceAllString(d, "")] = cs.Str()
	}
	return m
}

func checkC17(c *C17Case, st *VStats) *VFailure {
	da := c.A.WriteDir()
	ra := RunList(da, ListOpts{StopOnError: c.StopOnError})
	os.RemoveAll(da)
	if ra.Panic != nil {
		return &VFailure{Msg: fmt.Sprintf("list panicked: %v", ra.Panic), Sig: "panic"}
	}
	if ra.Err != nil {
		st.Class("skip: list returned an error")
		return nil
	}
	db := c.B.WriteDir()
	rb := RunList(db, ListOpts{StopOnError: c.StopOnError})
	os.RemoveAll(db)
	if rb.Panic != nil {
		return &VFailure{Msg: fmt.Sprintf("list panicked on the re-expressed input: %v", rb.Panic), Sig: "panic"}
	}
	if rb.Err != nil {
		f := vfail("list fails on the re-expressed input: %v", rb.Err)
		if c.Collide {
			// second face of the recorded finding F-C17-1: two distinct workloads (different kinds) sharing a name
			// are taken for pods of one owner
			nw := c.B.Workloads[len(c.B.Workloads)-1]
			base := strings.TrimSuffix(nw.Name, "-1")
			if strings.Contains(rb.Err.Error(), "same owner "+nw.Ns+"/"+nw.Name) || strings.Contains(rb.Err.Error(), "same owner "+nw.Ns+"/"+base) {
				f.Sig = "workload-name-collision-shadows-peer"
			}
		}
		return f
	}
	// every workload is represented by exactly one peer
	want := map[string]bool{}
	for i := range c.B.Workloads {
		want[c.B.Workloads[i].PeerString()] = true
	}
	got := map[string]int{}
	for _, p := range rb.Wls {
		got[p]++
	}
	var missing, dup []string
	for p := range want {
		if got[p] == 0 {
			missing = append(missing, p)
		}
	}
	for p, n := range got {
		if n > 1 || !want[p] {
			dup = append(dup, p)
		}
	}
	if len(missing)+len(dup) > 0 {
		f := vfail("workloads and reported peers differ: missing peers %v, unexpected/duplicate peers %v (input workloads %d, reported %v)", missing, dup, len(want), rb.Wls)
		if c.Collide {
			// signature of the recorded finding F-C17-1: the case contains two workloads of one namespace whose
			// names collide across kinds, and the only peers missing are those two
			nw := c.B.Workloads[len(c.B.Workloads)-1]
			ok := len(dup) == 0
			for _, m := range missing {
				ns, name, _ := peerNsName(m)
				base := strings.TrimSuffix(nw.Name, "-1")
				if ns != nw.Ns || (name != nw.Name && name != base) {
					ok = false
				}
			}
			if ok {
				f.Sig = "workload-name-collision-shadows-peer"
			}
		}
		return f
	}
	for k := range rb.Conns {
		s, d := splitKey(k)
		if s == d {
			return vfail("workload listed as connecting to itself: %s", k)
		}
	}
	if c.Collide {
		st.Class("name collision across kinds")
		// the added workload is a distinct workload: giving it a name of its own must change nothing but that name
		// (a report depends on namespace, labels and ports - never on what else carries the same name)
		ren := c.B.Clone()
		nw := &ren.Workloads[len(ren.Workloads)-1]
		oldPeer := nw.PeerString()
		for i := 0; i < len(ren.Workloads)-1; i++ {
			if ren.Workloads[i].PeerString() == oldPeer {
				// e.g. ReplicaSet a next to bare pods owned by ReplicaSet a: one owner, legitimately one peer
				st.Class("added pods belong to an existing owner")
				return nil
			}
		}
		nw.Name = "zz-unique"
		newPeer := nw.PeerString()
		dr := ren.WriteDir()
		rr := RunList(dr, ListOpts{StopOnError: c.StopOnError})
		os.RemoveAll(dr)
		if rr.Failed() {
			return vfail("list fails after renaming the added workload to a unique name: %v %v", rr.Err, rr.Panic)
		}
		want := map[string]string{}
		for k, cs := range rr.Conns {
			s, d := splitKey(k)
			if s == newPeer {
				s = oldPeer
			}
			if d == newPeer {
				d = oldPeer
			}
			want[peerKey(s, d)] = cs.Str()
		}
		got := map[string]string{}
		for k, cs := range rb.Conns {
			got[k] = cs.Str()
		}
		if fmt.Sprint(want) != fmt.Sprint(got) {
			for k, v := range want {
				if got[k] != v {
					return vfail("two workloads sharing a name (%s): entry %s is %q, but %q when the added workload is given the unique name zz-unique", oldPeer, k, got[k], v)
				}
			}
			for k, v := range got {
				if want[k] != v {
					return vfail("two workloads sharing a name (%s): entry %s is %q, but %q when the added workload is given the unique name zz-unique", oldPeer, k, v, want[k])
				}
			}
		}
		st.Points(len(want))
		return nil // kind/replica invariance is not comparable when a workload was added
	}
	ma, mb := stripKinds(ra), stripKinds(rb)
	if fmt.Sprint(ma) != fmt.Sprint(mb) {
		for k, v := range ma {
			if mb[k] != v {
				return vfail("re-expressing workloads (kind/replicas) changed the report at %s: before %q after %q", k, v, mb[k])
			}
		}
		for k, v := range mb {
			if ma[k] != v {
				return vfail("re-expressing workloads (kind/replicas) changed the report at %s: before %q after %q", k, ma[k], v)
			}
		}
	}
	st.Points(len(ma))
	changed := false
	for i := range c.A.Workloads {
		x, y := &c.A.Workloads[i], &c.B.Workloads[i]
		if x.Kind != y.Kind || x.Replicas != y.Replicas {
			sel := false
			for k := range c.A.NPs {
				if c.A.npGoverns(&c.A.NPs[k], x, "Ingress") || c.A.npGoverns(&c.A.NPs[k], x, "Egress") {
					sel = true
				}
			}
			for _, sv := range c.A.Services {
				if sv.Ns == x.Ns && superset(x.Labels, sv.Selector) {
					sel = true
				}
			}
			if sel {
				changed = true
			}
		}
	}
	if changed {
		st.NonTrivialCase(c)
	}
	return nil
}

func init() { vRegister("C17", checkC17) }

func TestC17(t *testing.T) { vRunProp(t, "C17", genC17, checkC17) }
