package harness

import (
	"fmt"
	"io"
	"log"
	"sort"
	"strings"

	"github.com/np-guard/netpol-analyzer/pkg/manifests/fsscanner"
	"github.com/np-guard/netpol-analyzer/pkg/netpol/connlist"
	"github.com/np-guard/netpol-analyzer/pkg/netpol/diff"
)

func init() { log.SetOutput(io.Discard) }

// ---------- connection-set model (sorted interval list per protocol) ----------

type Rng struct{ Lo, Hi int }
type CSet struct {
	All bool
	M   map[string][]Rng
}

func (c *CSet) Has(proto string, port int) bool {
	if c == nil {
		return false
	}
	if c.All {
		return true
	}
	for _, r := range c.M[proto] {
		if port >= r.Lo && port <= r.Hi {
			return true
		}
	}
	return false
}

func (c *CSet) Empty() bool { return c == nil || (!c.All && len(c.M) == 0) }

// Str is a canonical, deterministic rendering used to compare sets.
func (c *CSet) Str() string {
	if c.Empty() {
		return "none"
	}
	if c.All {
		return "ALL"
	}
	var ps []string
	for p, rs := range c.M {
		var xs []string
		for _, r := range rs {
			if r.Lo == r.Hi {
				xs = append(xs, fmt.Sprint(r.Lo))
			} else {
				xs = append(xs, fmt.Sprintf("%d-%d", r.Lo, r.Hi))
			}
		}
		ps = append(ps, p+" "+strings.Join(xs, ","))
	}
	sort.Strings(ps)
	return strings.Join(ps, ",")
}

// Breakpoints returns every range endpoint of the set.
func (c *CSet) Breakpoints() []int {
	var res []int
	if c == nil {
		return nil
	}
	for _, rs := range c.M {
		for _, r := range rs {
			res = append(res, r.Lo, r.Hi)
		}
	}
	return res
}

// ---------- list observation ----------

type IPR struct {
	Lo, Hi uint64
	S      string
}

func ip4(s string) (uint64, bool) {
	var a, b, c, d uint64
	var rest string
	n, _ := fmt.Sscanf(s+" ", "%d.%d.%d.%d%s", &a, &b, &c, &d, &rest)
	if n < 4 || a > 255 || b > 255 || c > 255 || d > 255 || rest != "" {
		return 0, false
	}
	return a<<24 | b<<16 | c<<8 | d, true
}

func addrStr(a uint64) string {
	return fmt.Sprintf("%d.%d.%d.%d", a>>24, (a>>16)&255, (a>>8)&255, a&255)
}

type ErrInfo struct {
	Msg           string
	Fatal, Severe bool
	Loc           string
}

type ListOpts struct {
	Exposure    bool
	Focus       string
	Format      string // "" => default
	StopOnError bool
	WantOutput  bool
	ViaInfos    bool // ConnlistFromResourceInfos(fsscanner...) instead of ConnlistFromDirPath
	ScanAll     bool // with ViaInfos: the infos are scanned the ordinary way (continue on error) even under StopOnError
	Mute        bool // the analyzer's own WithMuteErrsAndWarns option (off by default, as in `list`)
	Twice       bool // the input is analysed twice on one analyzer; the second result counts
}

type ListRes struct {
	Conns   map[string]*CSet // "src;dst"
	Keys    []string         // in returned order
	IPs     []IPR            // sorted
	Wls     []string         // workload peers (String()), returned order
	NPeers  int
	Err     error
	Errs    []ErrInfo
	Panic   interface{}
	WF      []string // violations of the C05 well-formedness predicate
	Out     string
	Out2    string // second rendering of the same result on the same analyzer
	OutErr  error
	Exposed []XPeer
	// ScanErrs: errors returned by fsscanner when the resource-info entry point is used (unreadable files never
	// reach the analyzer there, they are reported by the scanner)
	ScanErrs []string
}

func (r *ListRes) Failed() bool { return r.Panic != nil || r.Err != nil }

func (r *ListRes) IPPeerOf(a uint64) string {
	for _, x := range r.IPs {
		if a >= x.Lo && a <= x.Hi {
			return x.S
		}
	}
	return "?"
}

// Rel renders the whole relation canonically (sorted), for equality checks between runs.
func (r *ListRes) Rel() string {
	var ls []string
	for k, c := range r.Conns {
		ls = append(ls, k+" : "+c.Str())
	}
	sort.Strings(ls)
	return strings.Join(ls, "\n")
}

func csetFrom(all bool, m map[string][]Rng) *CSet { return &CSet{All: all, M: m} }

func peerKey(src, dst string) string { return src + ";" + dst }

func splitKey(k string) (string, string) {
	i := strings.Index(k, ";")
	return k[:i], k[i+1:]
}

// RunList runs the list analysis in-process, recovers panics, normalises the result and evaluates the
// C05 validity predicate on the returned values (violations are collected in WF, never raised here).
// nopLogger keeps the runs quiet without the analyzer's own mute option: `list` as users run it does not mute, and
// what the mute option changes besides printing is the tool's business (diff uses it internally).
type nopLogger struct{}

func (nopLogger) Debugf(string, ...interface{})        {}
func (nopLogger) Infof(string, ...interface{})         {}
func (nopLogger) Warnf(string, ...interface{})         {}
func (nopLogger) Errorf(error, string, ...interface{}) {}

func RunList(dir string, o ListOpts) (res *ListRes) {
	res = &ListRes{Conns: map[string]*CSet{}}
	defer func() {
		if r := recover(); r != nil {
			res.Panic = r
		}
	}()
	opts := []connlist.ConnlistAnalyzerOption{connlist.WithLogger(nopLogger{})}
	if o.Mute {
		opts = append(opts, connlist.WithMuteErrsAndWarns())
	}
	if o.Exposure {
		opts = append(opts, connlist.WithExposureAnalysis())
	}
	if o.Focus != "" {
		opts = append(opts, connlist.WithFocusWorkload(o.Focus))
	}
	if o.Format != "" {
		opts = append(opts, connlist.WithOutputFormat(o.Format))
	}
	if o.StopOnError {
		opts = append(opts, connlist.WithStopOnError())
	}
	ca := connlist.NewConnlistAnalyzer(opts...)
	var conns []connlist.Peer2PeerConnection
	var peers []connlist.Peer
	var err error
	if o.ViaInfos {
		infos, scanErrs := fsscanner.GetResourceInfosFromDirPath([]string{dir}, true, o.StopOnError && !o.ScanAll)
		for _, e := range scanErrs {
			res.ScanErrs = append(res.ScanErrs, e.Error())
		}
		conns, peers, err = ca.ConnlistFromResourceInfos(infos)
	} else {
		conns, peers, err = ca.ConnlistFromDirPath(dir)
		if o.Twice && err == nil {
			// the same input analysed once more on the same analyzer: what is normalised below is the SECOND result
			conns, peers, err = ca.ConnlistFromDirPath(dir)
		}
	}
	res.Err = err
	for _, e := range ca.Errors() {
		ei := ErrInfo{Fatal: e.IsFatal(), Severe: e.IsSevere(), Loc: e.Location()}
		if e.Error() != nil {
			ei.Msg = e.Error().Error()
		}
		res.Errs = append(res.Errs, ei)
	}
	res.NPeers = len(peers)
	wf := func(f string, a ...interface{}) { res.WF = append(res.WF, fmt.Sprintf(f, a...)) }
	for _, p := range peers {
		if p.IsPeerIPType() {
			parts := strings.Split(p.IP(), "-")
			lo, ok1 := ip4(parts[0])
			var hi uint64
			ok2 := false
			if len(parts) == 2 {
				hi, ok2 = ip4(parts[1])
			}
			if len(parts) != 2 || !ok1 || !ok2 || lo > hi {
				wf("ip peer is not a single contiguous range: %q", p.IP())
				continue
			}
			res.IPs = append(res.IPs, IPR{lo, hi, p.String()})
		} else {
			res.Wls = append(res.Wls, p.String())
		}
	}
	sort.Slice(res.IPs, func(i, j int) bool { return res.IPs[i].Lo < res.IPs[j].Lo })
	ipSet := map[string]bool{}
	for _, r := range res.IPs {
		ipSet[r.S] = true
	}
	for _, c := range conns {
		s, d := c.Src().String(), c.Dst().String()
		key := peerKey(s, d)
		if _, dup := res.Conns[key]; dup {
			wf("more than one entry for %s", key)
		}
		if s == d {
			wf("entry pairs a peer with itself: %s", key)
		}
		if c.Src().IsPeerIPType() && c.Dst().IsPeerIPType() {
			wf("entry between two IP peers: %s", key)
		}
		for _, p := range []connlist.Peer{c.Src(), c.Dst()} {
			if p.IsPeerIPType() && len(peers) > 0 && !ipSet[p.String()] {
				wf("entry uses IP peer %s which is not in the returned peers", p.String())
			}
		}
		cs := &CSet{All: c.AllProtocolsAndPorts(), M: map[string][]Rng{}}
		full := 0
		for proto, prs := range c.ProtocolsAndPorts() {
			if len(prs) == 0 {
				wf("protocol %s with no ranges in %s", proto, key)
			}
			prev := 0
			for _, pr := range prs {
				lo, hi := int(pr.Start()), int(pr.End())
				if lo < 1 || hi > 65535 || lo > hi || (prev != 0 && lo <= prev+1) {
					wf("non-canonical port ranges for %s %s: %v", key, proto, prs)
				}
				prev = hi
				cs.M[string(proto)] = append(cs.M[string(proto)], Rng{lo, hi})
			}
			if len(prs) == 1 && prs[0].Start() == 1 && prs[0].End() == 65535 {
				full++
			}
			if proto != "TCP" && proto != "UDP" && proto != "SCTP" {
				wf("unknown protocol %q in %s", proto, key)
			}
		}
		if cs.All && len(cs.M) != 0 {
			wf("all-connections flag with explicit ports: %s", key)
		}
		if !cs.All && full == 3 {
			wf("full set spelled as three full ranges: %s", key)
		}
		if cs.Empty() {
			wf("empty connection listed: %s", key)
		}
		res.Conns[key] = cs
		res.Keys = append(res.Keys, key)
	}
	// tiling, whenever any peer was returned
	if len(peers) > 0 {
		next := uint64(0)
		ok := true
		for _, r := range res.IPs {
			if r.Lo != next {
				ok = false
			}
			next = r.Hi + 1
		}
		if !ok || next != 1<<32 {
			var ss []string
			for _, r := range res.IPs {
				ss = append(ss, r.S)
			}
			wf("IP peers do not tile 0.0.0.0-255.255.255.255: %v", ss)
		}
	}
	if o.Exposure && err == nil {
		res.Exposed = exposedPeers(ca)
		seenX := map[string]bool{}
		for _, x := range res.Exposed {
			if seenX[x.Peer] {
				wf("ExposedPeers() holds more than one entry for %s", x.Peer)
			}
			seenX[x.Peer] = true
		}
	}
	if o.WantOutput && err == nil {
		res.Out, res.OutErr = ca.ConnectionsListToString(conns)
		// the same result rendered once more on the same analyzer (rendering must not leave state behind)
		res.Out2, _ = ca.ConnectionsListToString(conns)
	}
	return res
}

// ---------- diff observation ----------

type DEnt struct {
	Src, Dst, Typ, C1, C2 string
	NewSrc, NewDst        bool
}

type DiffRes struct {
	Ents   []DEnt
	Err    error
	Errs   []ErrInfo
	Panic  interface{}
	Empty  bool
	Out    string
	Out2   string
	OutErr error
}

type DiffOpts struct {
	Format      string
	StopOnError bool
	WantOutput  bool
}

func acStr(a diff.AllowedConnectivity) string {
	c := &CSet{All: a.AllProtocolsAndPorts(), M: map[string][]Rng{}}
	for p, prs := range a.ProtocolsAndPorts() {
		for _, pr := range prs {
			c.M[string(p)] = append(c.M[string(p)], Rng{int(pr.Start()), int(pr.End())})
		}
	}
	return c.Str()
}

func RunDiff(d1, d2 string, o DiffOpts) (res *DiffRes) {
	res = &DiffRes{}
	defer func() {
		if r := recover(); r != nil {
			res.Panic = r
		}
	}()
	opts := []diff.DiffAnalyzerOption{diff.WithArgNames("dir1", "dir2")}
	if o.Format != "" {
		opts = append(opts, diff.WithOutputFormat(o.Format))
	}
	if o.StopOnError {
		opts = append(opts, diff.WithStopOnError())
	}
	da := diff.NewDiffAnalyzer(opts...)
	cd, err := da.ConnDiffFromDirPaths(d1, d2)
	res.Err = err
	for _, e := range da.Errors() {
		ei := ErrInfo{Fatal: e.IsFatal(), Severe: e.IsSevere(), Loc: e.Location()}
		if e.Error() != nil {
			ei.Msg = e.Error().Error()
		}
		res.Errs = append(res.Errs, ei)
	}
	if err != nil {
		return res
	}
	if cd == nil {
		// no error and no value: the diff command renders whatever comes with a nil error - so does this (a panic is
		// recorded by the deferred recover)
		res.Out, res.OutErr = da.ConnectivityDiffToString(cd)
		res.Empty = true
		return res
	}
	res.Empty = cd.IsEmpty()
	for _, l := range [][]diff.SrcDstDiff{cd.AddedConnections(), cd.RemovedConnections(), cd.ChangedConnections(), cd.UnchangedConnections()} {
		for _, e := range l {
			res.Ents = append(res.Ents, DEnt{e.Src().String(), e.Dst().String(), string(e.DiffType()), acStr(e.Ref1Connectivity()), acStr(e.Ref2Connectivity()), e.IsSrcNewOrRemoved(), e.IsDstNewOrRemoved()})
		}
	}
	if o.WantOutput {
		res.Out, res.OutErr = da.ConnectivityDiffToString(cd)
		res.Out2, _ = da.ConnectivityDiffToString(cd)
	}
	return res
}

// listRaw / diffRaw run the analysis without recovering (C12 wants the panic and its stack).
func listRaw(dir string, exposure bool, format string) {
	listRawFocus(dir, exposure, format, "", false)
}

// listRawFocus: one list invocation with the given options; the report is rendered (and dropped).
func listRawFocus(dir string, exposure bool, format, focus string, stopOnErr bool) {
	opts := []connlist.ConnlistAnalyzerOption{connlist.WithMuteErrsAndWarns(), connlist.WithOutputFormat(format)}
	if exposure {
		opts = append(opts, connlist.WithExposureAnalysis())
	}
	if focus != "" {
		opts = append(opts, connlist.WithFocusWorkload(focus))
	}
	if stopOnErr {
		opts = append(opts, connlist.WithStopOnError())
	}
	ca := connlist.NewConnlistAnalyzer(opts...)
	conns, _, err := ca.ConnlistFromDirPath(dir)
	if err == nil {
		_, _ = ca.ConnectionsListToString(conns)
	}
}

func diffRaw(d1, d2 string) {
	for _, f := range []string{"txt", "dot", "csv", "md"} {
		diffRawOne(d1, d2, f, false)
	}
}

// diffRawOne does what the diff command does: whenever no error is returned the returned value is rendered (no
// nil guard - the command has none).
func diffRawOne(d1, d2, format string, stopOnErr bool) {
	opts := []diff.DiffAnalyzerOption{diff.WithOutputFormat(format), diff.WithArgNames("dir1", "dir2")}
	if stopOnErr {
		opts = append(opts, diff.WithStopOnError())
	}
	da := diff.NewDiffAnalyzer(opts...)
	cd, err := da.ConnDiffFromDirPaths(d1, d2)
	if err == nil {
		_, _ = da.ConnectivityDiffToString(cd)
	}
}
