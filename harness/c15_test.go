package harness

import (
	"fmt"
	"os"
	"sort"
	"strconv"
	"testing"

	corev1 "k8s.io/api/core/v1"
	netv1 "k8s.io/api/networking/v1"
	metav1 "k8s.io/apimachinery/pkg/apis/meta/v1"
	"k8s.io/apimachinery/pkg/runtime"
	"pgregory.net/rapid"
	apisv1a "sigs.k8s.io/network-policy-api/apis/v1alpha1"

	"github.com/np-guard/netpol-analyzer/pkg/netpol/eval"
)

// ---------- C15: engine answers depend on current objects only ----------

type C15Pod struct {
	Ns, Name, Owner string
	Labels          map[string]string
	Port            int
	PortName        string
	// OwnLabels: the pod keeps its own labels although its owner has other pods (the engine keys cached verdicts by
	// owner AND label set, precisely so that this is allowed)
	OwnLabels bool `json:",omitempty"`
	// Invalid: this version of the pod has no host IP and no pod IPs - the engine rejects it (an error), and a rejected
	// insert or update changes nothing
	Invalid bool `json:",omitempty"`
}

type C15Op struct {
	Kind   string // insNs delNs insPod delPod insNP delNP insANP delANP insBANP delBANP setRes query
	Ns     string
	Name   string
	Labels map[string]string `json:",omitempty"`
	Pod    *C15Pod           `json:",omitempty"`
	NP     *NetPol           `json:",omitempty"`
	Admin  *AdminPol         `json:",omitempty"`
	// setRes
	Pods []C15Pod `json:",omitempty"`
	NPs  []NetPol `json:",omitempty"`
}

type C15Case struct {
	Ops []C15Op
}

var c15Ns = []string{"ns1", "ns2", "default"}
var c15PodNames = []string{"a-1", "a-2", "b-1", "c-1"}
var c15NPNames = []string{"p1", "p2", "p3"}
var c15ANPNames = []string{"anp1", "anp2", "anp3", "anp4"}

func genC15Pod(t *rapid.T, l string) C15Pod {
	name := rapid.SampledFrom(c15PodNames).Draw(t, l+"pod")
	p := C15Pod{Ns: rapid.SampledFrom(c15Ns).Draw(t, l+"ns"), Name: name, Labels: genLabels(t, l+"pl", 2), Port: rapid.SampledFrom([]int{80, 81}).Draw(t, l+"port"), PortName: "http"}
	if name != "c-1" { // most pods have owners: only those are cached
		p.Owner = name[:1]
	}
	if rapid.IntRange(0, 3).Draw(t, l+"noname") == 0 {
		p.PortName = "" // a pod that does not call its port "http": rules on that name do not resolve on it
	}
	// pods are never placed in "default" by name; a quarter of them are inserted through the API WITHOUT a namespace and
	// live in "default" that way (policies and Namespace objects do name "default")
	if p.Ns == "default" {
		p.Ns = "ns1"
	}
	if rapid.IntRange(0, 3).Draw(t, l+"nons") == 0 {
		p.Ns = ""
	}
	if rapid.IntRange(0, 3).Draw(t, l+"longlabels") == 0 {
		// label sets that agree on a long prefix of their sorted rendering and differ late
		p.Labels = map[string]string{"a": "x1", "ab": "x1", "app": rapid.SampledFrom([]string{"x1", "x2"}).Draw(t, l+"lateapp")}
		if rapid.Bool().Draw(t, l+"latetier") {
			p.Labels["tier"] = rapid.SampledFrom([]string{"web", "db"}).Draw(t, l+"latetierv")
		}
		p.OwnLabels = rapid.Bool().Draw(t, l+"ownlabels")
	}
	p.Invalid = rapid.IntRange(0, 7).Draw(t, l+"invalid") == 0
	return p
}

func genC15NP(t *rapid.T, l string) NetPol {
	cfg := &GenCfg{NoNamedRisk: true}
	p := genNetPol(t, l, rapid.SampledFrom(c15Ns).Draw(t, l+"ns"), cfg)
	p.Name = rapid.SampledFrom(c15NPNames).Draw(t, l+"name")
	if rapid.IntRange(0, 2).Draw(t, l+"namedhttp") == 0 {
		// a rule that depends on what the destination pod calls "http" (the pods of this model declare 80 or 81)
		p.Ingress = append(p.Ingress, Rule{Ports: []PPort{{PortNam: "http"}}})
	}
	return p
}

func genC15(t *rapid.T) *C15Case {
	c := &C15Case{}
	n := rapid.IntRange(1, 40).Draw(t, "nsteps")
	kinds := []string{"insNs", "insNs", "delNs", "insPod", "insPod", "insPod", "insPod", "delPod", "insNP", "insNP", "insNP", "delNP", "insANP", "insANP", "insANP", "insANP", "delANP", "delANP", "insBANP", "delBANP", "setRes", "query", "reinsPod", "reinsPod"}
	cfg := &GenCfg{NoNamedRisk: true}
	for s := 0; s < n; s++ {
		l := fmt.Sprintf("s%d", s)
		op := C15Op{Kind: rapid.SampledFrom(kinds).Draw(t, l+"kind")}
		switch op.Kind {
		case "insNs":
			op.Ns = rapid.SampledFrom(c15Ns).Draw(t, l+"ns")
			op.Labels = genLabels(t, l+"nsl", 2)
		case "delNs":
			op.Ns = rapid.SampledFrom(c15Ns).Draw(t, l+"ns")
		case "insPod":
			p := genC15Pod(t, l)
			op.Pod = &p
		case "delPod", "reinsPod":
			op.Ns = rapid.SampledFrom(c15Ns).Draw(t, l+"ns")
			op.Name = rapid.SampledFrom(c15PodNames).Draw(t, l+"pod")
		case "insNP":
			p := genC15NP(t, l)
			op.NP = &p
		case "delNP":
			op.Ns = rapid.SampledFrom(c15Ns).Draw(t, l+"ns")
			op.Name = rapid.SampledFrom(c15NPNames).Draw(t, l+"np")
		case "insANP":
			a := genAdminPol(t, l+"anp", false, cfg)
			if rapid.Bool().Draw(t, l+"broadanp") {
				// broad, mutually conflicting ANPs: everything selects everything, so that the order of the policies decides
				all := APeer{Namespaces: &Selector{}}
				r := ARule{Name: "r", Action: rapid.SampledFrom([]string{"Allow", "Deny", "Pass"}).Draw(t, l+"bact"), Peers: []APeer{all}}
				if rapid.Bool().Draw(t, l+"bport") {
					r.HasPorts = true
					r.Ports = []APort{{Kind: "number", Proto: "TCP", Port: 80}}
					if rapid.Bool().Draw(t, l+"bnamed") {
						// a port name (the pods of this model call 80 or 81 "http", one pod has no ports... none here) before a number
						r.Ports = []APort{{Kind: "named", Name: rapid.SampledFrom([]string{"http", "dns"}).Draw(t, l+"bname")}, {Kind: "number", Proto: "TCP", Port: rapid.SampledFrom([]int{80, 81}).Draw(t, l+"bnum")}}
					}
				}
				a = AdminPol{Subject: all}
				if rapid.Bool().Draw(t, l+"bdir") {
					a.Ingress = []ARule{r}
				} else {
					a.Egress = []ARule{r}
				}
			}
			a.Name = rapid.SampledFrom(c15ANPNames).Draw(t, l+"aname")
			a.Priority = rapid.SampledFrom([]int{5, 1, 2, 3, 10, 1000, 0}).Draw(t, l+"prio")
			op.Admin = &a
		case "delANP":
			op.Name = rapid.SampledFrom(c15ANPNames).Draw(t, l+"aname")
		case "insBANP":
			a := genAdminPol(t, l+"banp", true, cfg)
			a.Name = rapid.SampledFrom([]string{"default", "default", "default", "other"}).Draw(t, l+"bname")
			op.Admin = &a
		case "delBANP":
			op.Name = rapid.SampledFrom([]string{"default", "default", "other"}).Draw(t, l+"bname")
		case "setRes":
			np := rapid.IntRange(0, 2).Draw(t, l+"npods")
			for i := 0; i < np; i++ {
				sp := genC15Pod(t, fmt.Sprintf("%sp%d", l, i))
				sp.Invalid = false // a failing SetResources ends the case: rejected versions come through InsertObject
				op.Pods = append(op.Pods, sp)
			}
			if rapid.Bool().Draw(t, l+"hasnp") {
				p := genC15NP(t, l+"np")
				p.Name = fmt.Sprintf("sr%d", s) // fresh name: cannot collide
				op.NPs = append(op.NPs, p)
			}
			if rapid.Bool().Draw(t, l+"hasns") {
				op.Ns = rapid.SampledFrom(c15Ns).Draw(t, l+"ns")
				op.Labels = genLabels(t, l+"nsl", 2)
			}
		}
		c.Ops = append(c.Ops, op)
	}
	return c
}

func (p *C15Pod) key() string { return p.Ns + "/" + p.Name }

func (p *C15Pod) object() *corev1.Pod {
	tr := true
	o := &corev1.Pod{ObjectMeta: metav1.ObjectMeta{Name: p.Name, Namespace: p.Ns, Labels: copyMap(p.Labels)},
		Spec:   corev1.PodSpec{Containers: []corev1.Container{{Name: "c", Ports: []corev1.ContainerPort{{ContainerPort: int32(p.Port), Name: p.PortName}}}}},
		Status: corev1.PodStatus{HostIP: "192.168.49.2", PodIPs: []corev1.PodIP{{IP: "10.244.1.1"}}}}
	if p.Invalid {
		o.Status = corev1.PodStatus{}
	}
	if p.Owner != "" {
		o.OwnerReferences = []metav1.OwnerReference{{Kind: "ReplicaSet", Name: p.Owner, Controller: &tr, APIVersion: "apps/v1"}}
	}
	return o
}

func copyMap(m map[string]string) map[string]string {
	r := map[string]string{}
	for k, v := range m {
		r[k] = v
	}
	return r
}

func npObject(p *NetPol) *netv1.NetworkPolicy {
	q := *p
	q.EmptyIngress, q.EmptyEgress = false, false // the typed object cannot tell an empty list from an absent one
	return (&World{NPs: []NetPol{q}}).Docs()[0].Obj.(*netv1.NetworkPolicy)
}
func anpObject(a *AdminPol) *apisv1a.AdminNetworkPolicy {
	return (&World{ANPs: []AdminPol{*a}}).Docs()[0].Obj.(*apisv1a.AdminNetworkPolicy)
}
func banpObject(a *AdminPol) *apisv1a.BaselineAdminNetworkPolicy {
	o := (&World{BANP: a}).Docs()[0].Obj.(*apisv1a.BaselineAdminNetworkPolicy)
	o.Name = a.Name
	return o
}
func nsObject(name string, labels map[string]string) *corev1.Namespace {
	return &corev1.Namespace{ObjectMeta: metav1.ObjectMeta{Name: name, Labels: copyMap(labels)}}
}

type c15Model struct {
	ns   map[string]map[string]string
	pods map[string]C15Pod
	nps  map[string]NetPol
	anps map[string]AdminPol
	banp *AdminPol
}

func sortedKeysOf[V any](m map[string]V) []string {
	var ks []string
	for k := range m {
		ks = append(ks, k)
	}
	sort.Strings(ks)
	return ks
}

// fresh builds a new engine holding exactly the model's current objects, in canonical order.
func (m *c15Model) fresh() (*eval.PolicyEngine, error) {
	pe := eval.NewPolicyEngine()
	ins := func(o runtime.Object) error { return pe.InsertObject(o) }
	for _, k := range sortedKeysOf(m.ns) {
		if err := ins(nsObject(k, m.ns[k])); err != nil {
			return nil, err
		}
	}
	for _, k := range sortedKeysOf(m.pods) {
		p := m.pods[k]
		if err := ins(p.object()); err != nil {
			return nil, err
		}
	}
	for _, k := range sortedKeysOf(m.nps) {
		p := m.nps[k]
		if err := ins(npObject(&p)); err != nil {
			return nil, err
		}
	}
	var as []AdminPol
	for _, k := range sortedKeysOf(m.anps) {
		as = append(as, m.anps[k])
	}
	sort.SliceStable(as, func(i, j int) bool { return as[i].Priority < as[j].Priority })
	for i := range as {
		if err := ins(anpObject(&as[i])); err != nil {
			return nil, err
		}
	}
	if m.banp != nil {
		if err := ins(banpObject(m.banp)); err != nil {
			return nil, err
		}
	}
	return pe, nil
}

func (m *c15Model) clone() *c15Model {
	c := &c15Model{ns: map[string]map[string]string{}, pods: map[string]C15Pod{}, nps: map[string]NetPol{}, anps: map[string]AdminPol{}, banp: m.banp}
	for k, v := range m.ns {
		c.ns[k] = v
	}
	for k, v := range m.pods {
		c.pods[k] = v
	}
	for k, v := range m.nps {
		c.nps[k] = v
	}
	for k, v := range m.anps {
		c.anps[k] = v
	}
	return c
}

func checkC15(c *C15Case, st *VStats) *VFailure {
	// the engine's debug cache log lands in the cwd: run from a scratch directory
	pe := eval.NewPolicyEngine()
	m := &c15Model{ns: map[string]map[string]string{}, pods: map[string]C15Pod{}, nps: map[string]NetPol{}, anps: map[string]AdminPol{}}
	last := map[string]bool{}
	flips := 0
	var step string
	guard := func(what string, f func() error) (err error, fail *VFailure) {
		defer func() {
			if r := recover(); r != nil {
				fail = &VFailure{Msg: fmt.Sprintf("%s: %s panicked: %v", step, what, r), Sig: "panic"}
			}
		}()
		return f(), nil
	}
	addrsQ := []string{"10.1.2.3", "200.1.1.1"}
	queryAll := func() *VFailure {
		fe, err := m.fresh()
		if err != nil {
			// the model holds only objects the engine under test accepted
			return vfail("%s: a fresh engine rejects the current objects which the engine under test accepted: %v", step, err)
		}
		var ends []string
		ends = append(ends, sortedKeysOf(m.pods)...)
		npods := len(ends)
		ends = append(ends, addrsQ...)
		for si, src := range ends {
			for di, dst := range ends {
				if si >= npods && di >= npods {
					continue
				}
				for _, pp := range [][2]string{{"TCP", "80"}, {"TCP", "81"}, {"UDP", "80"}, {"TCP", "1"}} {
					var got bool
					var e1 error
					_, f := guard("CheckIfAllowed", func() error { got, e1 = pe.CheckIfAllowed(src, dst, pp[0], pp[1]); return nil })
					if f != nil {
						return f
					}
					noteEvalCall()
					want, e2 := fe.CheckIfAllowed(src, dst, pp[0], pp[1])
					st.Points(1)
					if (e1 != nil) != (e2 != nil) || (e1 == nil && got != want) {
						return vfail("%s: STALE/DIVERGED %s -> %s %s/%s: engine with history answers (%v, err=%v), a fresh engine holding the same objects answers (%v, err=%v)", step, src, dst, pp[0], pp[1], got, e1, want, e2)
					}
					k := src + ">" + dst + pp[0] + pp[1]
					if v, ok := last[k]; ok && e1 == nil && v != got {
						flips++
					}
					if e1 == nil {
						last[k] = got
					}
				}
			}
		}
		return nil
	}
	insPod := func(p C15Pod) (bool, *VFailure) {
		// replicas of one owner are template-identical (DESIGN §3): derive from the owner's existing pods
		if p.Owner != "" && !p.OwnLabels {
			for _, k := range sortedKeysOf(m.pods) {
				if q := m.pods[k]; k != p.key() && q.Ns == p.Ns && q.Owner == p.Owner {
					p.Labels, p.Port, p.PortName = q.Labels, q.Port, q.PortName
				}
			}
		}
		if p.Owner != "" {
			// pods of one owner that carry the same labels are copies of one template: same ports (the engine keys its
			// cache by owner and label set on that assumption)
			for _, k := range sortedKeysOf(m.pods) {
				if q := m.pods[k]; k != p.key() && q.Ns == p.Ns && q.Owner == p.Owner && fmt.Sprint(q.Labels) == fmt.Sprint(p.Labels) {
					p.Port, p.PortName = q.Port, q.PortName
				}
			}
		}
		err, f := guard("InsertObject(pod)", func() error { return pe.InsertObject(p.object()) })
		if f != nil {
			return false, f
		}
		if _, present := m.pods[p.key()]; present && err != nil {
			st.Class("rejected update of a pod that is present")
		}
		if err == nil {
			m.pods[p.key()] = p
		}
		return err == nil, nil
	}
	for s, op := range c.Ops {
		step = fmt.Sprintf("step %d %s", s, op.Kind)
		var err error
		var f *VFailure
		switch op.Kind {
		case "insNs":
			step += " " + op.Ns + fmt.Sprint(op.Labels)
			if err, f = guard("InsertObject(ns)", func() error { return pe.InsertObject(nsObject(op.Ns, op.Labels)) }); f == nil && err == nil {
				m.ns[op.Ns] = op.Labels
			}
		case "delNs":
			step += " " + op.Ns
			if err, f = guard("DeleteObject(ns)", func() error { return pe.DeleteObject(nsObject(op.Ns, nil)) }); f == nil && err == nil {
				delete(m.ns, op.Ns)
			}
		case "insPod":
			step += " " + op.Pod.key()
			_, f = insPod(*op.Pod)
		case "delPod":
			step += " " + op.Ns + "/" + op.Name
			if _, ok := m.pods[op.Ns+"/"+op.Name]; !ok {
				st.Class("delete of an absent object")
			}
			// by a fresh object carrying only name and namespace
			if err, f = guard("DeleteObject(pod)", func() error {
				return pe.DeleteObject(&corev1.Pod{ObjectMeta: metav1.ObjectMeta{Name: op.Name, Namespace: op.Ns}})
			}); f == nil && err == nil {
				delete(m.pods, op.Ns+"/"+op.Name)
			}
		case "reinsPod":
			// an existing pod is deleted and comes back with the same labels but its "http" port on the other number
			step += " " + op.Ns + "/" + op.Name
			old, ok := m.pods[op.Ns+"/"+op.Name]
			if !ok {
				st.Class("skip step: pod to re-insert is absent")
				break
			}
			if err, f = guard("DeleteObject(pod)", func() error {
				return pe.DeleteObject(&corev1.Pod{ObjectMeta: metav1.ObjectMeta{Name: op.Name, Namespace: op.Ns}})
			}); f != nil || err != nil {
				break
			}
			delete(m.pods, op.Ns+"/"+op.Name)
			if f = queryAll(); f != nil {
				break
			}
			old.Port = 161 - old.Port // 80 <-> 81
			if old.Labels != nil {
				old.Labels = copyMap(old.Labels)
			}
			step += " (back with http=" + fmt.Sprint(old.Port) + ")"
			_, f = insPod(old)
			st.Class("pod deleted and re-inserted with another port number")
		case "insNP":
			step += " " + op.NP.Ns + "/" + op.NP.Name
			if err, f = guard("InsertObject(np)", func() error { return pe.InsertObject(npObject(op.NP)) }); f == nil && err == nil {
				m.nps[op.NP.Ns+"/"+op.NP.Name] = *op.NP
			}
		case "delNP":
			step += " " + op.Ns + "/" + op.Name
			if _, ok := m.nps[op.Ns+"/"+op.Name]; !ok {
				st.Class("delete of an absent object")
			}
			if err, f = guard("DeleteObject(np)", func() error {
				return pe.DeleteObject(&netv1.NetworkPolicy{ObjectMeta: metav1.ObjectMeta{Name: op.Name, Namespace: op.Ns}})
			}); f == nil && err == nil {
				delete(m.nps, op.Ns+"/"+op.Name)
			}
		case "insANP":
			a := *op.Admin
			// priorities of the current ANPs are distinct (equal priorities are a conflict, C19): take the next free one
			for {
				used := false
				for n, x := range m.anps {
					if n != a.Name && x.Priority == a.Priority {
						used = true
					}
				}
				if !used {
					break
				}
				a.Priority = (a.Priority + 1) % 1001
			}
			step += fmt.Sprintf(" %s prio %d", a.Name, a.Priority)
			if err, f = guard("InsertObject(anp)", func() error { return pe.InsertObject(anpObject(&a)) }); f == nil && err == nil {
				m.anps[a.Name] = a
			}
		case "delANP":
			step += " " + op.Name
			old, ok := m.anps[op.Name]
			if !ok {
				st.Class("delete of an absent object")
				old = AdminPol{Name: op.Name, Subject: APeer{Namespaces: &Selector{}}}
			}
			// by an equal copy, not by the pointer that was inserted
			if err, f = guard("DeleteObject(anp)", func() error { return pe.DeleteObject(anpObject(&old)) }); f == nil && err == nil {
				delete(m.anps, op.Name)
			}
		case "insBANP":
			step += " " + op.Admin.Name
			if err, f = guard("InsertObject(banp)", func() error { return pe.InsertObject(banpObject(op.Admin)) }); f == nil && err == nil {
				if op.Admin.Name != "default" {
					return vfail("%s: a BaselineAdminNetworkPolicy not named default was accepted", step)
				}
				if m.banp != nil {
					return vfail("%s: a second BaselineAdminNetworkPolicy was accepted", step)
				}
				b := *op.Admin
				m.banp = &b
			}
		case "delBANP":
			step += " " + op.Name
			if m.banp == nil {
				st.Class("delete of an absent object")
			}
			probe := AdminPol{Name: op.Name, Subject: APeer{Namespaces: &Selector{}}}
			if err, f = guard("DeleteObject(banp)", func() error { return pe.DeleteObject(banpObject(&probe)) }); f == nil && err == nil {
				if m.banp != nil && m.banp.Name == op.Name {
					m.banp = nil
				}
			}
		case "setRes":
			trial := m.clone()
			var pols []*netv1.NetworkPolicy
			var pods []*corev1.Pod
			var nss []*corev1.Namespace
			if op.Ns != "" {
				nss = append(nss, nsObject(op.Ns, op.Labels))
				trial.ns[op.Ns] = op.Labels
			}
			for i := range op.NPs {
				pols = append(pols, npObject(&op.NPs[i]))
				trial.nps[op.NPs[i].Ns+"/"+op.NPs[i].Name] = op.NPs[i]
			}
			for _, p := range op.Pods {
				if p.Owner != "" {
					for k, q := range trial.pods {
						if k != p.key() && q.Ns == p.Ns && q.Owner == p.Owner {
							p.Labels, p.Port, p.PortName = q.Labels, q.Port, q.PortName
						}
					}
				}
				pods = append(pods, p.object())
				trial.pods[p.key()] = p
			}
			if err, f = guard("SetResources", func() error { return pe.SetResources(pols, pods, nss) }); f == nil {
				if err != nil {
					if _, ferr := trial.fresh(); ferr == nil {
						return vfail("%s: SetResources rejects objects that a fresh engine accepts: %v", step, err)
					}
					st.Class("skip: SetResources with objects no engine accepts")
					return nil
				}
				m = trial
			}
		case "query":
		}
		if f != nil {
			return f
		}
		if err != nil {
			st.Class("operation rejected with an error (state must be unchanged)")
		}
		if f := queryAll(); f != nil {
			return f
		}
	}
	if flips > 0 {
		st.NonTrivialCase(c)
	}
	return nil
}

func init() {
	vRegister("C15", checkC15)
	// the engine's debug cache appends to cacheHitsLog.txt in the cwd; tests run from a scratch cwd (driver)
	_ = os.Getenv
	_ = strconv.Itoa
}

func TestC15(t *testing.T) { vRunProp(t, "C15", genC15, checkC15) }
