package harness

import (
	"fmt"
	"os"
	"path/filepath"
	"strings"
	"testing"

	"pgregory.net/rapid"
)

// ---------- C19: conflicting policy sets are always rejected ----------

type C19Case struct {
	Kind    string
	NANP    int
	Files   []C12File // the conflicting input, laid out in files
	Clean   string    // the same world without the conflict (one file), for diff
	Names   []string  // every one of these must occur in the error message (names / values of the conflict)
	AnyOf   []string  // at least one of these (lower-case) must occur in the lower-cased message
	Gap     int       // number of other documents between the two conflicting ones
	Single  bool      // the conflicting ANP is the only ANP
	NoWl    bool      `json:",omitempty"` // the input holds no workload
	StrayNs bool      `json:",omitempty"` // conflicting cluster-scoped objects carry metadata.namespace values
}

func simpleANP(name string, prio int) AdminPol {
	return AdminPol{Name: name, Priority: prio, Subject: APeer{Namespaces: &Selector{}},
		Ingress: []ARule{{Name: "r", Action: "Allow", Peers: []APeer{{Namespaces: &Selector{}}}}}}
}

func docYAML(d Doc) string { return string(d.YAML()) }

func genC19(t *rapid.T) *C19Case {
	w := GenWorld(t, GenCfg{Admin: true, NoNamedRisk: true, MaxNP: 6, MaxANP: 3})
	// no BANP in the base world for BANP conflicts to be unambiguous
	c := &C19Case{Kind: rapid.SampledFrom([]string{"dupprio", "dupprio", "range", "dupanpname", "dupnp", "twobanp", "banpname", "ownerlabels", "ownermissing", "ownerempty", "ownerempty2"}).Draw(t, "conflict")}
	if c.Kind == "twobanp" || c.Kind == "banpname" {
		w.BANP = nil
	}
	if !strings.HasPrefix(c.Kind, "owner") && rapid.IntRange(0, 5).Draw(t, "nowl") == 0 {
		// a policies-only input (no workload at all): there is nothing to list, the conflict is there all the same
		w.Workloads = nil
		c.NoWl = true
	}
	// scale up the number of ANPs (sort.Slice switches algorithm above 12 elements)
	used := map[int]bool{}
	for _, a := range w.ANPs {
		used[a.Priority] = true
	}
	extra := rapid.IntRange(0, 40).Draw(t, "nextra")
	for i := 0; i < extra; i++ {
		p := rapid.IntRange(0, 1000).Draw(t, fmt.Sprintf("xp%d", i))
		if used[p] {
			continue
		}
		used[p] = true
		w.ANPs = append(w.ANPs, simpleANP(fmt.Sprintf("x%d", i), p))
	}
	if c.Kind == "range" && rapid.IntRange(0, 3).Draw(t, "single") == 0 {
		w.ANPs = nil
		c.Single = true
	}
	// other kinds of resources around the conflict: Services with selectors (in the namespaces of the world and in one
	// that holds nothing else), an Ingress - they make the analysis take other paths before it meets the conflict
	if rapid.IntRange(0, 2).Draw(t, "withsvc") == 0 {
		nsv := rapid.IntRange(1, 3).Draw(t, "nsvc19")
		for i := 0; i < nsv; i++ {
			l := fmt.Sprintf("svc19_%d", i)
			cand := []string{"empty-ns"}
			for _, n := range w.Namespaces {
				cand = append(cand, n.Name)
			}
			sv := Svc{Ns: rapid.SampledFrom(cand).Draw(t, l+"ns"), Name: l, Selector: map[string]string{"app": rapid.SampledFrom([]string{"x1", "x2", "web"}).Draw(t, l+"sel")},
				Ports: []SvcPort{{Port: 80, TargetNum: 80}}}
			w.Services = append(w.Services, sv)
			if rapid.Bool().Draw(t, l+"ing") {
				w.Ingresses = append(w.Ingresses, Ing{Ns: sv.Ns, Name: "ing" + l, Default: &Backend{Svc: sv.Name, PortNum: 80}})
			}
		}
	}
	c.NANP = len(w.ANPs)
	c.Clean = w.YAML()
	var docs []string
	for _, d := range w.Docs() {
		docs = append(docs, docYAML(d))
	}
	ns := w.Namespaces[0].Name
	var inject []string
	switch c.Kind {
	case "dupprio":
		if len(w.ANPs) > 0 {
			o := w.ANPs[rapid.IntRange(0, len(w.ANPs)-1).Draw(t, "which")]
			inject = []string{docYAML((&World{ANPs: []AdminPol{simpleANP("dup-a", o.Priority)}}).Docs()[0])}
			c.Names = []string{"dup-a", o.Name}
		} else {
			p := rapid.IntRange(0, 1000).Draw(t, "p")
			inject = []string{docYAML((&World{ANPs: []AdminPol{simpleANP("dup-a", p)}}).Docs()[0]), docYAML((&World{ANPs: []AdminPol{simpleANP("dup-b", p)}}).Docs()[0])}
			c.Names = []string{"dup-a", "dup-b"}
		}
	case "range":
		bp := rapid.SampledFrom([]int{-1, 1001, 2147483647, -2147483648, 5000}).Draw(t, "bp")
		inject = []string{docYAML((&World{ANPs: []AdminPol{simpleANP("bad-range", bp)}}).Docs()[0])}
		c.Names = []string{"bad-range", fmt.Sprint(bp)}
	case "dupanpname":
		var ps []int
		for len(ps) < 2 {
			p := rapid.IntRange(0, 1000).Draw(t, fmt.Sprintf("twp%d", len(ps)))
			if !used[p] {
				used[p] = true
				ps = append(ps, p)
			} else if len(used) > 900 {
				ps = append(ps, p)
			}
		}
		inject = []string{docYAML((&World{ANPs: []AdminPol{simpleANP("twin", ps[0])}}).Docs()[0]), docYAML((&World{ANPs: []AdminPol{simpleANP("twin", ps[1])}}).Docs()[0])}
		c.Names = []string{"twin"}
	case "dupnp":
		p1 := NetPol{Ns: ns, Name: "twin", PolicyTypes: []string{"Ingress"}}
		p2 := NetPol{Ns: ns, Name: "twin", PolicyTypes: []string{"Egress"}, PodSel: Selector{MatchLabels: map[string]string{"app": "x1"}}}
		inject = []string{docYAML((&World{NPs: []NetPol{p1}}).Docs()[0]), docYAML((&World{NPs: []NetPol{p2}}).Docs()[0])}
		c.Names = []string{"twin"}
	case "twobanp":
		b := simpleANP("default", 0)
		inject = []string{docYAML((&World{BANP: &b}).Docs()[0]), docYAML((&World{BANP: &b}).Docs()[0])}
		c.AnyOf = []string{"baseline", "banp"}
	case "banpname":
		b := simpleANP("default", 0)
		y := strings.Replace(docYAML((&World{BANP: &b}).Docs()[0]), "name: default", "name: other", 1)
		inject = []string{y}
		c.AnyOf = []string{"baseline", "banp"}
		c.Names = []string{"default"}
	case "ownerlabels", "ownermissing", "ownerempty", "ownerempty2":
		a := Workload{Ns: ns, Name: "own", Kind: "Owned:ReplicaSet", Replicas: 1, Labels: map[string]string{"app": "x1", "tier": "db"}}
		b := a
		switch c.Kind {
		case "ownerlabels":
			b.Labels = map[string]string{"app": "x2", "tier": "db"}
		case "ownermissing":
			b.Labels = map[string]string{"tier": "db"}
		case "ownerempty": // a label with an empty value on one pod, absent on the other
			a.Labels = map[string]string{"app": "x1", "tier": "db", "canary": ""}
			b.Labels = map[string]string{"app": "x1", "tier": "db"}
		default: // different empty-valued keys
			a.Labels = map[string]string{"app": "x1", "canary": ""}
			b.Labels = map[string]string{"app": "x1", "stable": ""}
		}
		if rapid.Bool().Draw(t, "ownerswap") {
			a.Labels, b.Labels = b.Labels, a.Labels
		}
		switch rapid.IntRange(0, 5).Draw(t, "owner2") {
		case 0, 1:
			// the controller reference is not the first ownerReference of the pods
			a.Kind = "Owned2:ReplicaSet"
		case 2:
			// the controller is of a kind of its own (a CRD: Tekton TaskRun, Argo Rollout, ...): an owner all the same
			a.Kind = "Owned:TaskRun"
		case 3:
			a.Kind = "Owned:StatefulSet"
		}
		b.Kind = a.Kind
		if rapid.IntRange(0, 2).Draw(t, "ownerctl") == 0 {
			// the controller itself is in the input next to one of its pods (its own pods come from the template)
			a.Kind = "ReplicaSet"
			a.Replicas = rapid.IntRange(-1, 2).Draw(t, "ownerctlreps")
		}
		da := workloadDocs(&World{}, &a)[0]
		db := workloadDocs(&World{}, &b)[0]
		yb := strings.Replace(docYAML(db), "name: "+ownedPodName(&b, 0), "name: "+ownedPodName(&b, 1), 1)
		inject = []string{docYAML(da), yb}
		if a.Kind != "ReplicaSet" && rapid.IntRange(0, 2).Draw(t, "ownermore") == 0 {
			// more pods of the owner that agree with the first one: the deviating pod may be the third or fourth in the input
			nm := rapid.IntRange(1, 2).Draw(t, "ownermoren")
			for k := 0; k < nm; k++ {
				inject = append(inject, strings.Replace(docYAML(da), "name: "+ownedPodName(&a, 0), "name: "+ownedPodName(&a, 2+k), 1))
			}
		}
		c.Names = []string{"own"}
	}
	if (c.Kind == "dupanpname" || c.Kind == "twobanp" || c.Kind == "dupprio") && len(inject) >= 1 && rapid.IntRange(0, 2).Draw(t, "strayns") == 0 {
		// cluster-scoped objects that carry a metadata.namespace (an API server clears the field; overlays stamp it): the
		// two conflicting objects carry different values, or only one of them carries one
		for i := range inject {
			if i == 0 || rapid.Bool().Draw(t, fmt.Sprintf("strayns%d", i)) {
				inject[i] = strings.Replace(inject[i], "metadata:\n", fmt.Sprintf("metadata:\n  namespace: team-%c\n", 'a'+i), 1)
			}
		}
		c.StrayNs = true
	}
	if (c.Kind == "dupnp" || c.Kind == "dupanpname" || c.Kind == "twobanp") && len(inject) == 2 && rapid.IntRange(0, 2).Draw(t, "sameuid") == 0 {
		// both copies carry the same metadata.uid, as two exports of one cluster object do (their specs may still differ)
		for i := range inject {
			inject[i] = strings.Replace(inject[i], "metadata:\n", "metadata:\n  uid: 5b0e3f3c-6c1d-4b0a-9a52-0d2f4a7c9e11\n  resourceVersion: \"1234\"\n", 1)
		}
	}
	var pos []int
	for i, inj := range inject {
		p := rapid.IntRange(0, len(docs)).Draw(t, fmt.Sprintf("pos%d", i))
		docs = append(docs[:p], append([]string{inj}, docs[p:]...)...)
		for k := range pos {
			if pos[k] >= p {
				pos[k]++
			}
		}
		pos = append(pos, p)
	}
	if len(pos) == 2 {
		c.Gap = pos[0] - pos[1]
		if c.Gap < 0 {
			c.Gap = -c.Gap
		}
		c.Gap--
	}
	nf := rapid.IntRange(1, 3).Draw(t, "nfiles")
	files := make([][]string, nf)
	for i, d := range docs {
		k := rapid.IntRange(0, nf-1).Draw(t, fmt.Sprintf("f%d", i))
		files[k] = append(files[k], d)
	}
	for i, f := range files {
		if len(f) > 0 {
			c.Files = append(c.Files, C12File{Path: fmt.Sprintf("f%d.yaml", i), Content: strings.Join(f, "---\n")})
		}
	}
	return c
}

func checkC19(c *C19Case, st *VStats) *VFailure {
	dir := mkScratch()
	defer os.RemoveAll(dir)
	for _, f := range c.Files {
		writeFile(filepath.Join(dir, f.Path), []byte(f.Content))
	}
	clean := mkScratch()
	defer os.RemoveAll(clean)
	writeFile(filepath.Join(clean, "all.yaml"), []byte(c.Clean))
	named := func(msg string) *VFailure {
		for _, n := range c.Names {
			if !strings.Contains(msg, n) {
				return vfail("conflict %s (n=%d ANPs): the error does not name %q: %s", c.Kind, c.NANP, n, msg)
			}
		}
		if len(c.AnyOf) > 0 {
			ok := false
			for _, a := range c.AnyOf {
				if strings.Contains(strings.ToLower(msg), a) {
					ok = true
				}
			}
			if !ok {
				return vfail("conflict %s: the error does not name the conflict (none of %v): %s", c.Kind, c.AnyOf, msg)
			}
		}
		return nil
	}
	for _, via := range []bool{false, true} {
		r := RunList(dir, ListOpts{ViaInfos: via})
		if r.Panic != nil {
			return &VFailure{Msg: fmt.Sprintf("list panicked: %v", r.Panic), Sig: "panic"}
		}
		if r.Err == nil {
			return vfail("conflict %s accepted by list (n=%d ANPs, via infos=%v): a report with %d entries was produced", c.Kind, c.NANP, via, len(r.Conns))
		}
		if len(r.Conns) != 0 || r.NPeers != 0 {
			return vfail("conflict %s: list returns an error together with a report (%d entries)", c.Kind, len(r.Conns))
		}
		if f := named(r.Err.Error()); f != nil {
			return f
		}
		fatal := false
		for _, e := range r.Errs {
			if e.Fatal {
				fatal = true
			}
		}
		if !fatal {
			return vfail("conflict %s: list fails (%v) but Errors() holds no fatal entry", c.Kind, r.Err)
		}
	}
	for i, pair := range [][2]string{{dir, clean}, {clean, dir}} {
		d := RunDiff(pair[0], pair[1], DiffOpts{})
		if d.Panic != nil {
			return &VFailure{Msg: fmt.Sprintf("diff panicked: %v", d.Panic), Sig: "panic"}
		}
		if d.Err == nil {
			return vfail("conflict %s accepted by diff (conflict in dir%d)", c.Kind, i+1)
		}
		if len(d.Ents) != 0 {
			return vfail("conflict %s: diff returns an error together with a report", c.Kind)
		}
		if f := named(d.Err.Error()); f != nil {
			f.Msg = "diff: " + f.Msg
			return f
		}
		fatal := false
		for _, e := range d.Errs {
			if e.Fatal {
				fatal = true
			}
		}
		if !fatal {
			return vfail("conflict %s: diff fails (%v) but Errors() holds no fatal entry", c.Kind, d.Err)
		}
	}
	st.Class("conflict " + c.Kind)
	if c.NoWl {
		st.Class("conflict in an input without workloads")
	}
	if c.StrayNs {
		st.Class("conflicting cluster-scoped objects with a stray metadata.namespace")
	}
	st.Points(4)
	if c.NANP >= 13 {
		st.Class(">=13 ANPs")
	}
	if c.Single {
		st.Class("out-of-range priority on the only ANP")
	}
	if len(c.Files) > 1 {
		st.Class("split over several files")
	}
	if c.NANP >= 13 || c.Gap >= 3 {
		st.NonTrivialKeyed(fmt.Sprintf("%s/%d/%d/%d", c.Kind, c.NANP, c.Gap, len(c.Files)), map[string]interface{}{"kind": c.Kind, "n_anp": c.NANP, "gap": c.Gap, "files": len(c.Files), "first_file": c.Files[0].Content})
	}
	return nil
}

func init() { vRegister("C19", checkC19) }

func TestC19(t *testing.T) { vRunProp(t, "C19", genC19, checkC19) }
